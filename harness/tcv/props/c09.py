"""C09 - configs compose by declared precedence, without leaking or silent override."""
import copy

from ..core import Prop, Suite
from .. import pipeline as pl
from ..suites_chain import ChainBuild, CONSTRUCTION_ERRORS


class Params(ChainBuild):
    aspects = ('params', 'conflict')


class Holder:
    """a mutable object that is neither list nor dict (a vocabulary, a fitted scaler)"""
    def __init__(self):
        self.words = ['a']


def mutable_ids(v, acc):
    if isinstance(v, (list, dict, set, Holder)):
        acc.add(id(v))
    if isinstance(v, (list, dict, tuple, set, frozenset)):
        for x in (v.values() if isinstance(v, dict) else v):
            mutable_ids(x, acc)
    if isinstance(v, Holder):
        mutable_ids(v.words, acc)
    return acc


class Aliasing(Suite):
    """heap property, outside the functional model: configs built from one context share no mutable
    values with it or with each other"""
    name = 'no_shared_mutable_values'
    model = ''

    def corpus(self):
        from ..suites_chain import K, P
        # a class with mutable defaults, mounted under two namespaces and at the root
        cls = [dict(K(0, 'Abc', params=[P('x', default=[[1, {'k': [2]}]]), P('y', default=[{'d': [1]}])]), name='abc'),
               dict(K(1, 'Dep', meta_inputs=[{'cls': 0}], params=[P('x', default=[[1, {'k': [2]}]])]), name='dep')]
        one = dict(classes=cls, files={'one.json': {'tasks': ['@M.*']}, 'two.json': {'tasks': ['@M.*'], 'y': {'d': [1]}}},
                   base={'name': 'main', 'data': {'tasks': ['@M.*'], 'uses': ['one.json as a', 'two.json as b']}},
                   context={'dict': {'shared': [1]}})
        return [one, dict(one, python_values=True)]

    def gen(self, rng, tier):
        from ..gen_pipeline import gen_case
        out = []
        for _ in range(40 if tier == 'quick' else 600):
            c = gen_case(rng)
            if c.get('context') is None or 'dict' not in c['context']:
                c['context'] = {'dict': {'shared': [{'k': [1]}, [2]], 'a': {'deep': [1, 2]}}}
            else:
                c['context']['dict']['shared'] = [{'k': [1]}, [2]]
            out.append(c)
        return out

    def run_impl(self, case):
        with pl.workspace(case) as (d, mod):
            ctx = pl.ctx_arg(case['context'], mod)
            if case.get('python_values') and isinstance(ctx, dict):
                # values that are mutable without being lists or mappings: a set, a tuple that holds a list, an object
                ctx['stopwords'] = {'the', 'a'}
                ctx['pairs'] = ([1, 2], {'k': [3]})
                ctx['holder'] = Holder()
                ctx.setdefault('for_namespaces', {}).setdefault('a', {})['stopwords'] = {'der', 'die'}
            before = copy.deepcopy(ctx)
            try:
                from taskchain import Config
                kw = dict(global_vars=pl.gv_arg(case), context=ctx)
                base = case['base']
                from pathlib import Path
                make_cfg = lambda: (Config(Path('data'), base['file'], **kw) if 'file' in base else
                                    Config(Path('data'), name=base['name'], data=pl.subst_mod(pl.spec_to_doc(base['data']), mod), **kw))
                cfg = make_cfg()
                chain = cfg.chain()
            except CONSTRUCTION_ERRORS as e:
                return dict(error=type(e).__name__)
            configs = list(chain._configs.values())
            ctx_obj = cfg.context
            ctx_ids = set()
            for v in ctx_obj.data.values():
                mutable_ids(v, ctx_ids)
            for nsd in ctx_obj.for_namespaces.values():
                for v in nsd.values():
                    mutable_ids(v, ctx_ids)
            problems = []
            seen = {}
            for c in configs:
                ids = set()
                for k, v in c.data.items():
                    if k == 'for_namespaces':
                        continue
                    mutable_ids(v, ids)
                if ids & ctx_ids:
                    problems.append(f'config {c} shares a mutable value with its context')
                for other, oids in seen.items():
                    if ids & oids:
                        problems.append(f'configs {c} and {other} share a mutable value')
                seen[str(c)] = ids
            snapshot = {str(c): copy.deepcopy({k: pl.to_spec(v) for k, v in c.data.items() if k != 'for_namespaces'}) for c in configs}
            # mutate everything reachable from the context object and from the first config
            for v in list(ctx_obj.data.values()):
                if isinstance(v, list):
                    v.append('MUTATED')
                elif isinstance(v, dict):
                    v['MUTATED'] = 1
                elif isinstance(v, set):
                    v.add('MUTATED')
                elif isinstance(v, Holder):
                    v.words.append('MUTATED')
                elif isinstance(v, tuple) and v and isinstance(v[0], list):
                    v[0].append('MUTATED')
            after = {str(c): {k: pl.to_spec(v) for k, v in c.data.items() if k != 'for_namespaces'} for c in configs}
            for name in snapshot:
                if repr(snapshot[name]) != repr(after[name]):
                    problems.append(f'mutating the context changed config {name}')
            # the values the tasks hold - configured ones and declared defaults: no task shares a mutable value with a
            # task of another config, with the declaration on the class, or with a task of a chain of a config made
            # afterwards in the same way (tasks of one config do hold the config's own values, that is one config)
            def task_ids(ch):
                out = {}
                for n, t in ch.tasks.items():
                    ids = set()
                    for k in t.params.keys() if hasattr(t.params, 'keys') else []:
                        mutable_ids(t.params[k], ids)
                    cfg_of = t.get_config()
                    out[n] = (ids, id(getattr(cfg_of, 'original_config', cfg_of)))
                return out
            declared = set()
            for t in chain.tasks.values():
                for p in getattr(t.meta, 'parameters', None) or []:
                    mutable_ids(getattr(p, 'default', None), declared)
            mine = task_ids(chain)
            try:
                later = task_ids(make_cfg().chain())
            except CONSTRUCTION_ERRORS:
                later = {}
            names = sorted(mine)
            for i, a in enumerate(names):
                if mine[a][0] & declared:
                    problems.append(f'task {a} holds the very object declared as a default on its class')
                for b in names[i + 1:]:
                    if mine[a][0] & mine[b][0] and mine[a][1] != mine[b][1]:
                        problems.append(f'tasks {a} and {b} of different configs share a mutable parameter value')
                for b, (ids, _) in later.items():
                    if mine[a][0] & ids:
                        problems.append(f'task {a} shares a mutable parameter value with task {b} of a chain built afterwards from a new config')
            return dict(configs=len(configs), problems=problems[:3], tasks=len(names))

    def oracle(self, case, obs):
        if 'unexpected_exception' in obs:
            return f'unexpected exception {obs["unexpected_exception"]}: {obs["text"]}'
        if obs.get('problems'):
            return '; '.join(obs['problems'])
        return None

    def nontrivial(self, case, obs):
        return obs.get('configs', 0) >= 2 or obs.get('tasks', 0) >= 2

    def key(self, case):
        return repr(case)


class ContextReuse(Suite):
    """a caller keeps context objects (dicts with global and per-namespace entries, nested values, placeholders) and
    builds several chains from them, singly and in lists, with different global_vars, mutating the values the
    tasks received in between: every chain is configured as the chain built alone from fresh copies of the same
    contexts, and the caller's objects still hold what the caller put there.  Runtime check only."""
    name = 'context_reuse'
    model = ''
    VALUES = [5, 'plain', '{X}/f', ['{X}', 1], {'k': ['a{X}', 2]}, [[1], {'d': '{Y}'}], {'m': {'n': [1, 2]}}, [], None, 0]

    def corpus(self):
        a = {'p': [1], 'for_namespaces': {'n': {'p': {'k': ['{X}/f', 1]}, 'q': [1, 2]}}}
        b = {'q': 'b', 'for_namespaces': {'n': {'p': {'k': ['other']}, 'q': ['{X}']}}}
        u = {'p': [1], 'uses': 'ctx_extra.json'}
        v = {'q': 'v', 'uses': ['ctx_extra.json', 'ctx_other.json as n']}
        uses_cases = [dict(ctxs=[u, b], builds=[dict(use=[0], gv=None), dict(use=[0], gv=None)], form=f) for f in ('dict', 'object')] + \
                     [dict(ctxs=[v, u], builds=[dict(use=[0, 1], gv=None), dict(use=[1], gv=None), dict(use=[0], gv=None)], form=f)
                      for f in ('dict', 'object')]
        # a context whose uses entries hold placeholders, reused with other global_vars
        w = {'p': [2], 'uses': ['ctx_{X}.json']}
        uses_cases += [dict(ctxs=[w, b], builds=[dict(use=[0], gv={'X': 'one'}), dict(use=[0], gv={'X': 'two'}), dict(use=[0, 1], gv={'X': 'one'})],
                            form=f) for f in ('dict', 'object')]
        return uses_cases + [dict(ctxs=[a, b], builds=[dict(use=[0, 1], gv={'X': 'one'}), dict(use=[0], gv={'X': 'two'}),
                                          dict(use=[1, 0], gv=None), dict(use=[0], gv={'X': 'one'})], form='dict'),
                dict(ctxs=[a, b], builds=[dict(use=[0], gv={'X': 'one'}), dict(use=[0], gv={'X': 'two'})], form='object'),
                dict(ctxs=[a, b], builds=[dict(use=[0, 1], gv=None), dict(use=[0], gv=None)], form='object')]

    def gen(self, rng, tier):
        out = []
        for _ in range(40 if tier == 'quick' else 600):
            ctxs = []
            for _i in range(rng.choice([2, 3])):
                c = {k: copy.deepcopy(rng.choice(self.VALUES)) for k in ('p', 'q') if rng.random() < 0.5}
                if rng.random() < 0.25:
                    c['uses'] = rng.choice(['ctx_extra.json', ['ctx_extra.json'], ['ctx_other.json as n', 'ctx_extra.json']])
                fn = {}
                for ns in ('n', 'm'):
                    if rng.random() < 0.7:
                        fn[ns] = {k: copy.deepcopy(rng.choice(self.VALUES)) for k in ('p', 'q') if rng.random() < 0.7}
                if fn:
                    c['for_namespaces'] = fn
                ctxs.append(c)
            builds = []
            for _i in range(rng.choice([2, 3, 4])):
                use = rng.sample(range(len(ctxs)), rng.choice([1, 1, 2, len(ctxs)]))
                builds.append(dict(use=use, gv=rng.choice([None, {'X': 'one', 'Y': 'y1'}, {'X': 'two'}])))
            out.append(dict(ctxs=ctxs, builds=builds, form=rng.choice(['dict', 'dict', 'object'])))
        return out

    def run_impl(self, case):
        from pathlib import Path
        from taskchain import Config
        from taskchain.config import Context
        from ..suites_chain import K, P
        classes = [dict(K(0, 'Src', params=[P('p', default=[-1]), P('q', default=[-2])]), name='src')]
        files = {'pipe.json': {'tasks': ['@M.*']}, 'ctx_extra.json': {'q': ['from extra'], 'for_namespaces': {'m': {'p': 'extra m'}}},
                 'ctx_other.json': {'p': {'other': 1}}, 'ctx_one.json': {'q': 'from one'}, 'ctx_two.json': {'q': 'from two'}}
        with pl.workspace(dict(classes=classes, files=files)) as (d, mod):
            def make(ctx_specs):
                cs = [copy.deepcopy(c) for c in ctx_specs]
                return [Context(data=c, name=f'ctx{i}') for i, c in enumerate(cs)] if case['form'] == 'object' else cs

            def build(ctxs, b):
                arg = [ctxs[i] for i in b['use']]
                cfg = Config(Path('data'), name='main', data={'uses': ['pipe.json as n', 'pipe.json as m'], 'tasks': [f'{mod}.Src']},
                             context=arg[0] if len(arg) == 1 else arg, global_vars=copy.deepcopy(b['gv']))
                ch = cfg.chain()
                return ch, {n: {'params': {k: pl.to_spec(t.params[k]) for k in t.params.keys()}, 'value': pl.to_spec(t.value)}
                            for n, t in ch.tasks.items()}

            def state(ctxs):
                if case['form'] == 'object':
                    return [pl.to_spec({'data': c.data, 'for_namespaces': dict(c.for_namespaces)}) for c in ctxs]
                return [pl.to_spec(c) for c in ctxs]

            def scribble(v):
                if isinstance(v, list):
                    for x in v:
                        scribble(x)
                    v.append('SCRIBBLE')
                elif isinstance(v, dict):
                    for x in list(v.values()):
                        scribble(x)
                    v['SCRIBBLE'] = 1

            kept = make(case['ctxs'])
            before = copy.deepcopy(state(kept))
            seq, alone, chains = [], [], []
            for b in case['builds']:
                ch, got = build(kept, b)
                seq.append(copy.deepcopy(got))
                chains.append(ch)
                for t in ch.tasks.values():       # the caller's tasks modify what they were given
                    for k in t.params.keys():
                        scribble(t.params[k])
            for b in case['builds']:
                alone.append(build(make(case['ctxs']), b)[1])
            return dict(seq=seq, alone=alone, before=before, after=state(kept))

    def oracle(self, case, obs):
        if 'unexpected_exception' in obs:
            return f'unexpected exception {obs["unexpected_exception"]}: {obs["text"]}'
        for i, (a, b) in enumerate(zip(obs['seq'], obs['alone'])):
            if repr(a) != repr(b):
                t = next(n for n in b if repr(a.get(n)) != repr(b[n]))
                return (f'build {i} ({case["builds"][i]}) after the earlier builds gives {t} the parameters {a.get(t, {}).get("params")} '
                        f'and the value {a.get(t, {}).get("value")}; built alone from fresh copies of the same contexts it gets '
                        f'{b[t]["params"]} and {b[t]["value"]}')
        if repr(obs['before']) != repr(obs['after']):
            return f'the caller\'s context objects changed: {obs["before"]} -> {obs["after"]}'
        # values that came from a context are substituted like the config's own: no placeholder that the build's
        # global_vars define is left in what a task receives
        def left(v, names):
            if isinstance(v, dict) and '__reprstr__' in v:
                return left(v['__reprstr__'][0], names)
            if isinstance(v, str):
                return [n for n in names if '{' + n + '}' in v]
            if isinstance(v, dict):
                return [x for y in v.values() for x in left(y, names)]
            if isinstance(v, list):
                return [x for y in v for x in left(y, names)]
            return []
        for i, (b, tasks) in enumerate(zip(case['builds'], obs['seq'])):
            names = list(b.get('gv') or {})
            for t, o in tasks.items():
                bad = left(o.get('params'), names)
                if bad:
                    return (f'build {i} ({b}): task {t} receives {o.get("params")}: the placeholder(s) {sorted(set(bad))} defined by '
                            f'global_vars were not substituted in a value that came from a context')
        return None

    def nontrivial(self, case, obs):
        return len(case['builds']) >= 2

    def key(self, case):
        return repr(case)


class DataReuse(Suite):
    """a caller keeps the dict it passes as `data=` (nested values, placeholders) and builds several configs from it - with
    a context, without one, with other global_vars: every chain is configured as the chain built alone from a fresh copy
    of the same dict, and the caller's dict still holds what the caller put there.  Runtime check only."""
    name = 'data_reuse'
    model = ''
    VALUES = [5, 'plain', '{X}/f', ['{X}', 1], {'k': ['a{X}', 2]}, [[1], {'d': '{Y}'}], [], None]

    def corpus(self):
        return [dict(data={'p': 1}, builds=[dict(ctx={'q': 5}, gv=None), dict(ctx=None, gv=None)]),
                dict(data={'p': ['{X}/f', {'k': '{X}'}], 'q': '{X}'}, builds=[dict(ctx=None, gv={'X': 'one'}), dict(ctx=None, gv={'X': 'two'}),
                                                                           dict(ctx=None, gv=None)]),
                dict(data={'p': {'k': [1]}}, builds=[dict(ctx={'p': {'k': [2]}, 'q': [3]}, gv=None), dict(ctx={'q': [4]}, gv=None),
                                                     dict(ctx=None, gv=None)])]

    def gen(self, rng, tier):
        out = []
        for _ in range(30 if tier == 'quick' else 500):
            data = {k: copy.deepcopy(rng.choice(self.VALUES)) for k in ('p', 'q') if rng.random() < 0.7}
            builds = [dict(ctx=(None if rng.random() < 0.4 else {k: copy.deepcopy(rng.choice(self.VALUES)) for k in ('p', 'q') if rng.random() < 0.6}),
                           gv=rng.choice([None, {'X': 'one', 'Y': 'y1'}, {'X': 'two'}])) for _i in range(rng.choice([2, 3, 4]))]
            out.append(dict(data=data, builds=builds))
        return out

    def run_impl(self, case):
        from pathlib import Path
        from taskchain import Config
        from ..suites_chain import K, P
        classes = [dict(K(0, 'Src', params=[P('p', default=[-1]), P('q', default=[-2])]), name='src')]
        with pl.workspace(dict(classes=classes, files={})) as (d, mod):
            def build(data, b):
                cfg = Config(Path('data'), name='main', data=data, context=copy.deepcopy(b['ctx']), global_vars=copy.deepcopy(b['gv']))
                ch = cfg.chain()
                return {n: {'params': {k: pl.to_spec(t.params[k]) for k in t.params.keys()}, 'key': t.name_for_persistence}
                        for n, t in ch.tasks.items()}
            kept = dict(copy.deepcopy(case['data']), tasks=[f'{mod}.Src'])
            before = pl.to_spec({k: v for k, v in kept.items() if k != 'tasks'})
            seq = [build(kept, b) for b in case['builds']]
            alone = [build(dict(copy.deepcopy(case['data']), tasks=[f'{mod}.Src']), b) for b in case['builds']]
            return dict(seq=seq, alone=alone, before=before, after=pl.to_spec({k: v for k, v in kept.items() if k != 'tasks'}))

    def oracle(self, case, obs):
        if 'unexpected_exception' in obs:
            return f'unexpected exception {obs["unexpected_exception"]}: {obs["text"]}'
        for i, (a, b) in enumerate(zip(obs['seq'], obs['alone'])):
            if repr(a) != repr(b):
                return (f'config {i} ({case["builds"][i]}) built from the caller\'s data dict after the earlier configs gives {a}; built '
                        f'alone from a fresh copy of the same dict it gives {b}')
        if repr(obs['before']) != repr(obs['after']):
            return f'the caller\'s data dict changed: {obs["before"]} -> {obs["after"]}'
        return None

    def nontrivial(self, case, obs):
        return len(case['builds']) >= 2

    def key(self, case):
        return repr(case)


TYPES_SRC = """
import collections.abc, numbers
from pathlib import Path
from taskchain import Task, Parameter

class Train:
    class Options:                  # two different classes that share name and module
        def __init__(self, v=0):
            self.v = v

class Evaluate:
    class Options:
        def __init__(self, v=0):
            self.v = v

DTYPES = {'Sequence': collections.abc.Sequence, 'Mapping': collections.abc.Mapping, 'Real': numbers.Real, 'Integral': numbers.Integral,
          'Iterable': collections.abc.Iterable, 'list': list, 'dict': dict, 'int': int, 'float': float, 'str': str, 'TrainOptions': Train.Options,
          'object': object}

def make(dtype):
    class Abc(Task):
        class Meta:
            name = 'abc'
            parameters = [Parameter('p', dtype=DTYPES[dtype])]
        def run(self, p) -> dict:
            return {'type': type(p).__name__}
    return Abc
"""


class DeclaredTypes(Suite):
    """a parameter declared with a type - an abstract base class (Sequence, Mapping, Real ...), a built-in, a class of the
    user's - and a configured value: the value is accepted exactly when it is an instance of that type (isinstance), a
    wrong-typed value is refused when the chain is built - also an object of another class that has the same name and
    module.  Runtime check only (the model knows the built-in types)."""
    name = 'declared_parameter_types'
    model = ''
    VALUES = {'list': [1, 2], 'dict': {'a': 1}, 'int': 3, 'float': 2.5, 'str': 'text', 'bool': True, 'train_options': '@Train.Options',
              'evaluate_options': '@Evaluate.Options'}

    def gen(self, rng, tier):
        return [dict(dtype=d, value=v) for d in ('Sequence', 'Mapping', 'Real', 'Integral', 'Iterable', 'list', 'dict', 'int', 'float', 'str',
                                                   'TrainOptions', 'object') for v in self.VALUES]

    def run_impl(self, case):
        import sys, types
        from pathlib import Path
        from taskchain import Config
        from .. import pipeline as pl
        with pl.workspace(dict(classes=[], files={})) as (d, _):
            name = 'tcv_types'
            m = types.ModuleType(name)
            sys.modules[name] = m
            try:
                exec(compile(TYPES_SRC, name, 'exec'), m.__dict__)
                value = self.VALUES[case['value']]
                if isinstance(value, str) and value.startswith('@'):
                    value = eval('m.' + value[1:])(1)
                expected = isinstance(value, m.DTYPES[case['dtype']])
                try:
                    t = Config(Path('data'), name='c', data={'tasks': [m.make(case['dtype'])], 'p': value}).chain()['abc']
                    got = dict(accepted=True, same=t.params['p'] is value or t.params['p'] == value)
                except ValueError as e:
                    got = dict(accepted=False, text=str(e)[:100])
                return dict(expected=expected, **got)
            finally:
                sys.modules.pop(name, None)

    def oracle(self, case, obs):
        if 'unexpected_exception' in obs:
            return f'unexpected exception {obs["unexpected_exception"]}: {obs["text"]}'
        if obs['accepted'] != obs['expected']:
            return (f'a parameter declared with dtype {case["dtype"]} and the value {case["value"]}: '
                    f'{"accepted" if obs["accepted"] else "refused (" + obs.get("text", "") + ")"}, although the value is '
                    f'{"an" if obs["expected"] else "no"} instance of that type')
        if obs['accepted'] and not obs['same']:
            return f'{case}: the task holds another value than the configured one'
        return None

    def nontrivial(self, case, obs):
        return True

    def key(self, case):
        return repr(case)


class C09(Prop):
    pid = 'C09'
    suites = [Params(), Aliasing(), ContextReuse(), DataReuse(), DeclaredTypes()]
    trusted_base = ['"share no mutable values" is a heap property with no meaning in the functional model: it is '
                    'checked by the harness only (object identities, mutation after construction)']
    assumptions = ['contexts are well formed mappings (unique keys, unique namespaces); multi-config parts and nested '
                   'context uses are covered by the correspondence of the chain model, not by separate theorems']


PROP = C09()
