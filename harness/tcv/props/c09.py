"""C09 - configs compose by declared precedence, without leaking or silent override."""
import copy

from ..core import Prop, Suite
from .. import pipeline as pl
from ..suites_chain import ChainBuild, CONSTRUCTION_ERRORS


class Params(ChainBuild):
    aspects = ('params', 'conflict')


def mutable_ids(v, acc):
    if isinstance(v, (list, dict)):
        acc.add(id(v))
        for x in (v.values() if isinstance(v, dict) else v):
            mutable_ids(x, acc)
    return acc


class Aliasing(Suite):
    """heap property, outside the functional model: configs built from one context share no mutable
    values with it or with each other"""
    name = 'no_shared_mutable_values'
    model = ''

    def gen(self, rng, tier):
        from ..gen_pipeline import gen_case
        out = []
        for _ in range(40 if tier == 'quick' else 600):
            c = gen_case(rng)
            if c.get('context') is None or 'dict' not in c['context']:
                c['context'] = {'dict': {'shared': [{'k': [1]}, [2]], 'a': {'deep': [1, 2]}}}
            else:
                c['context']['dict']['shared'] = [{'k': [1]}, [2]]
            out.append(c)
        return out

    def run_impl(self, case):
        with pl.workspace(case) as (d, mod):
            ctx = pl.ctx_arg(case['context'], mod)
            before = copy.deepcopy(ctx)
            try:
                from taskchain import Config
                kw = dict(global_vars=pl.gv_arg(case), context=ctx)
                base = case['base']
                from pathlib import Path
                cfg = (Config(Path('data'), base['file'], **kw) if 'file' in base else
                       Config(Path('data'), name=base['name'], data=pl.subst_mod(pl.spec_to_doc(base['data']), mod), **kw))
                chain = cfg.chain()
            except CONSTRUCTION_ERRORS as e:
                return dict(error=type(e).__name__)
            configs = list(chain._configs.values())
            ctx_obj = cfg.context
            ctx_ids = set()
            for v in ctx_obj.data.values():
                mutable_ids(v, ctx_ids)
            for nsd in ctx_obj.for_namespaces.values():
                for v in nsd.values():
                    mutable_ids(v, ctx_ids)
            problems = []
            seen = {}
            for c in configs:
                ids = set()
                for k, v in c.data.items():
                    if k == 'for_namespaces':
                        continue
                    mutable_ids(v, ids)
                if ids & ctx_ids:
                    problems.append(f'config {c} shares a mutable value with its context')
                for other, oids in seen.items():
                    if ids & oids:
                        problems.append(f'configs {c} and {other} share a mutable value')
                seen[str(c)] = ids
            snapshot = {str(c): copy.deepcopy({k: pl.to_spec(v) for k, v in c.data.items() if k != 'for_namespaces'}) for c in configs}
            # mutate everything reachable from the context object and from the first config
            for v in list(ctx_obj.data.values()):
                if isinstance(v, list):
                    v.append('MUTATED')
                elif isinstance(v, dict):
                    v['MUTATED'] = 1
            after = {str(c): {k: pl.to_spec(v) for k, v in c.data.items() if k != 'for_namespaces'} for c in configs}
            for name in snapshot:
                if repr(snapshot[name]) != repr(after[name]):
                    problems.append(f'mutating the context changed config {name}')
            return dict(configs=len(configs), problems=problems[:3])

    def oracle(self, case, obs):
        if 'unexpected_exception' in obs:
            return f'unexpected exception {obs["unexpected_exception"]}: {obs["text"]}'
        if obs.get('problems'):
            return '; '.join(obs['problems'])
        return None

    def nontrivial(self, case, obs):
        return obs.get('configs', 0) >= 2

    def key(self, case):
        return repr(case)


class C09(Prop):
    pid = 'C09'
    suites = [Params(), Aliasing()]
    trusted_base = ['"share no mutable values" is a heap property with no meaning in the functional model: it is '
                    'checked by the harness only (object identities, mutation after construction)']
    assumptions = ['contexts are well formed mappings (unique keys, unique namespaces); multi-config parts and nested '
                   'context uses are covered by the correspondence of the chain model, not by separate theorems']


PROP = C09()
