"""C07 - forcing recomputes exactly what was asked."""
from pathlib import Path

from ..core import Prop, Suite
from ..suites_hist import Histories


class Forcing(Histories):
    name = 'forcing_histories'
    mix = 'force'
    checks = ('force', 'values')


class NameModeForce(Suite):
    """persistence by config name (parameter_mode=False): two configs whose names are related as prefix share a data
    directory; forcing with delete_data in one chain must leave the other chain's results alone (runtime check; the
    history model is parameter mode)"""
    name = 'name_mode_forcing'
    model = ''

    def gen(self, rng, tier):
        return [dict(names=n, data=d, delete=de) for n in (['exp1', 'exp10'], ['base', 'base_v2'], ['a', 'b'])
                for d in ('json', 'dir') for de in (True, False)]

    def run_impl(self, case):
        from pathlib import Path
        from .. import pipeline as pl
        from ..suites_chain import K
        classes = [dict(K(0, 'Feat', data=case['data']), name='features'), dict(K(1, 'Score', meta_inputs=[{'cls': 0}]), name='score')]
        files = {f'{n}.json': {'tasks': ['@M.*']} for n in case['names']}
        full = dict(classes=classes, files=files, base={'file': f'{case["names"][0]}.json'}, context=None)
        with pl.workspace(full) as (d, mod):
            def chain(n):
                return pl.build_config(full, mod, base={'file': f'{n}.json'}).chain(parameter_mode=False)
            chains = {n: chain(n) for n in case['names']}
            for ch in chains.values():
                for t in ch.tasks.values():
                    t.value
            listing = lambda: sorted(str(p) for p in Path('data').rglob('*') if not p.name.endswith(('.log', '.yaml')))
            before = listing()
            first, other = case['names']
            chains[first].force('features', delete_data=case['delete'])
            after = listing()
            pl.RUNLOG.clear()
            fresh = chain(other)
            has = {n: bool(t.has_data) for n, t in fresh.tasks.items()}
            for t in fresh.tasks.values():
                t.value
            flags = {n: bool(t.is_forced) for n, t in chains[first].tasks.items()}
            return dict(before=before, after=after, other_has=has, other_runs=[s for _, s, _ in pl.RUNLOG], flags=flags)

    def oracle(self, case, obs):
        if 'unexpected_exception' in obs:
            return f'unexpected exception {obs["unexpected_exception"]}: {obs["text"]}'
        first, other = case['names']
        owner = lambda p: (Path(p).parts[2].split('.')[0] if len(Path(p).parts) > 2 else '')
        mine = lambda p: owner(p) in (first, first + '_tmp', first + '_old', first + '_error')
        lost = [p for p in obs['before'] if p not in obs['after'] and not mine(p)]
        if lost:
            return f'{case}: forcing in the chain of `{first}` removed results of the chain of `{other}`: {lost}'
        if not all(obs['flags'].values()):
            return f'{case}: forcing `features` did not mark everything downstream: {obs["flags"]}'
        if not all(obs['other_has'].values()) or obs['other_runs']:
            return (f'{case}: the never-forced chain of `{other}` has_data={obs["other_has"]} and ran {obs["other_runs"]} '
                    f'after forcing in the chain of `{first}`')
        left = [p for p in obs['after'] if owner(p) == first]
        if case['delete'] and left:
            return f'{case}: delete_data left results of the forced tasks: {left}'
        return None

    def nontrivial(self, case, obs):
        return True

    def key(self, case):
        return repr(case)


class DataKindsForce(Suite):
    """every persisting data class: a task computed (or loaded) in this process, then forced through the chain with and
    without delete_data, from the computing object and from a new chain: forcing raises nothing, marks the task,
    delete_data removes its stored result, the next request runs it exactly once and replaces the result, and a
    request after that runs nothing.  Runtime check on the real data classes (the history model stores JSON values)."""
    name = 'data_classes_forcing'
    model = ''

    def gen(self, rng, tier):
        from .c05 import KINDS
        return [dict(kind=k, delete=d, who=w) for k in KINDS for d in (False, True) for w in ('computing_object', 'loaded_object', 'new_chain')]

    def run_impl(self, case):
        import os, shutil, sys, tempfile
        from .c05 import make_module, the_chain, in_child, describe_result
        kind = case['kind']
        tmp = tempfile.mkdtemp(prefix='tcverif-c07-')
        old = os.getcwd()
        try:
            os.chdir(tmp)
            state = dict(run=1, runs=0, fault=None, bad=None, empty=False, big=False)
            m = make_module(kind, state)

            def scenario():
                out = {}
                ch = the_chain(m, 'data')
                t = ch['c05:victim']
                out['v1'] = describe_result(kind, t.value)
                if case['who'] != 'computing_object':
                    ch = the_chain(m, 'data')
                    t = ch['c05:victim']
                    if case['who'] == 'loaded_object':
                        out['v_loaded'] = describe_result(kind, t.value)
                runs0 = state['runs']
                state['run'] = 2
                try:
                    ch.force('c05:victim', delete_data=case['delete'])
                    out['force'] = 'ok'
                except Exception as e:
                    out['force'] = f'{type(e).__name__}: {e}'[:200]
                out['forced'] = bool(t.is_forced)
                out['has_after_force'] = bool(the_chain(m, 'data')['c05:victim'].has_data)
                try:
                    out['v2'] = describe_result(kind, t.value)
                except Exception as e:
                    out['v2_error'] = f'{type(e).__name__}: {e}'[:200]
                out['runs_forced'] = state['runs'] - runs0
                t3 = the_chain(m, 'data')['c05:victim']
                out['has_end'] = bool(t3.has_data)
                out['v3'] = describe_result(kind, t3.value)
                out['runs_total'] = state['runs'] - runs0
                return out
            return in_child(scenario)
        finally:
            os.chdir(old)
            sys.modules.pop('tcv_dyn_c05', None)
            shutil.rmtree(tmp, ignore_errors=True)

    def oracle(self, case, obs):
        import json
        if 'unexpected_exception' in obs:
            return f'unexpected exception {obs["unexpected_exception"]}: {obs["text"]}'
        if 'child_error' in obs:
            return f'{case}: failed: {obs["child_error"]}'
        if obs['force'] != 'ok':
            return f'{case}: Chain.force(delete_data={case["delete"]}) raised {obs["force"]}'
        if not obs['forced']:
            return f'{case}: the forced task is not marked'
        if case['delete'] and obs['has_after_force']:
            return f'{case}: delete_data left the stored result in place'
        if not case['delete'] and not obs['has_after_force']:
            return f'{case}: forcing without delete_data removed the stored result'
        if 'v2_error' in obs:
            return f'{case}: the request after forcing fails: {obs["v2_error"]}'
        if obs['runs_forced'] != 1:
            return f'{case}: the request after forcing ran the task {obs["runs_forced"]} times'
        if json.dumps(obs['v2'], sort_keys=True, default=str) == json.dumps(obs['v1'], sort_keys=True, default=str) and case['kind'] != 'continues':
            return f'{case}: the forced request returned the value of the first run'
        if not obs['has_end'] or obs['runs_total'] != 1:
            return f'{case}: after the forced run a new chain has_data={obs["has_end"]} and {obs["runs_total"] - 1} further run(s)'
        if json.dumps(obs['v3'], sort_keys=True, default=str) != json.dumps(obs['v2'], sort_keys=True, default=str):
            return f'{case}: a new chain loads {json.dumps(obs["v3"], default=str)[:150]}, the forced run returned {json.dumps(obs["v2"], default=str)[:150]}'
        return None

    def nontrivial(self, case, obs):
        return True

    def key(self, case):
        return repr(case)


class C07(Prop):
    pid = 'C07'
    suites = [Forcing(), NameModeForce(), DataKindsForce()]
    assumptions = ['Chain.force iterates a set: the recomputation order is arbitrary, the model uses one order and the '
                   'comparison sorts the runs of that operation']


PROP = C07()
