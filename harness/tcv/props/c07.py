"""C07 - forcing recomputes exactly what was asked."""
from pathlib import Path

from ..core import Prop, Suite
from ..suites_hist import Histories


class Forcing(Histories):
    name = 'forcing_histories'
    mix = 'force'
    checks = ('force', 'values')


class NameModeForce(Suite):
    """persistence by config name (parameter_mode=False): two configs whose names are related as prefix share a data
    directory; forcing with delete_data in one chain must leave the other chain's results alone (runtime check; the
    history model is parameter mode)"""
    name = 'name_mode_forcing'
    model = ''

    def gen(self, rng, tier):
        return [dict(names=n, data=d, delete=de) for n in (['exp1', 'exp10'], ['base', 'base_v2'], ['a', 'b'])
                for d in ('json', 'dir') for de in (True, False)] + \
               [dict(names=['a', 'b'], data='json', delete=de, order=o) for de in (True, False) for o in ('dependant_first', 'mixed')]

    def run_impl(self, case):
        from pathlib import Path
        from .. import pipeline as pl
        from ..suites_chain import K
        classes = [dict(K(0, 'Feat', data=case['data']), name='features'), dict(K(1, 'Score', meta_inputs=[{'cls': 0}]), name='score')]
        if case.get('order'):
            classes.append(dict(K(2, 'Top', meta_inputs=[{'cls': 1}]), name='top'))
        files = {f'{n}.json': {'tasks': ['@M.*']} for n in case['names']}
        if case.get('order') in ('dependant_first', 'mixed'):      # dependants are listed before their inputs
            files = {f'{n}.json': {'tasks': ['@M.Top', '@M.Score', '@M.Feat'] if case['order'] == 'dependant_first' else ['@M.Score', '@M.Top', '@M.Feat']}
                     for n in case['names']}
        elif case.get('order') == 'split_files':         # the dependant in the base config, its input in a used one
            files = {f'{n}.json': {'tasks': ['@M.Score'], 'uses': f'{n}_up.json'} for n in case['names']}
            files.update({f'{n}_up.json': {'tasks': ['@M.Feat']} for n in case['names']})
        full = dict(classes=classes, files=files, base={'file': f'{case["names"][0]}.json'}, context=None)
        with pl.workspace(full) as (d, mod):
            def chain(n):
                return pl.build_config(full, mod, base={'file': f'{n}.json'}).chain(parameter_mode=False)
            chains = {n: chain(n) for n in case['names']}
            for ch in chains.values():
                for t in ch.tasks.values():
                    t.value
            listing = lambda: sorted(str(p) for p in Path('data').rglob('*') if not p.name.endswith(('.log', '.yaml')))
            before = listing()
            first, other = case['names']
            chains[first].force('features', delete_data=case['delete'])
            after = listing()
            pl.RUNLOG.clear()
            fresh = chain(other)
            has = {n: bool(t.has_data) for n, t in fresh.tasks.items()}
            for t in fresh.tasks.values():
                t.value
            flags = {n: bool(t.is_forced) for n, t in chains[first].tasks.items()}
            return dict(before=before, after=after, other_has=has, other_runs=[s for _, s, _ in pl.RUNLOG], flags=flags)

    def oracle(self, case, obs):
        if 'unexpected_exception' in obs:
            return f'unexpected exception {obs["unexpected_exception"]}: {obs["text"]}'
        first, other = case['names']
        owner = lambda p: (Path(p).parts[2].split('.')[0] if len(Path(p).parts) > 2 else '')
        mine = lambda p: owner(p) in (first, first + '_tmp', first + '_old', first + '_error')
        lost = [p for p in obs['before'] if p not in obs['after'] and not mine(p)]
        if lost:
            return f'{case}: forcing in the chain of `{first}` removed results of the chain of `{other}`: {lost}'
        if not all(obs['flags'].values()):
            return f'{case}: forcing `features` did not mark everything downstream: {obs["flags"]}'
        if not all(obs['other_has'].values()) or obs['other_runs']:
            return (f'{case}: the never-forced chain of `{other}` has_data={obs["other_has"]} and ran {obs["other_runs"]} '
                    f'after forcing in the chain of `{first}`')
        left = [p for p in obs['after'] if owner(p) == first]
        if case['delete'] and left:
            return f'{case}: delete_data left results of the forced tasks: {left}'
        return None

    def nontrivial(self, case, obs):
        return True

    def key(self, case):
        return repr(case)


class DataKindsForce(Suite):
    """every persisting data class: a task computed (or loaded) in this process, then forced through the chain with and
    without delete_data, from the computing object and from a new chain: forcing raises nothing, marks the task,
    delete_data removes its stored result, the next request runs it exactly once and replaces the result, and a
    request after that runs nothing.  Runtime check on the real data classes (the history model stores JSON values)."""
    name = 'data_classes_forcing'
    model = ''

    def gen(self, rng, tier):
        from .c05 import KINDS
        return [dict(kind=k, delete=d, who=w) for k in KINDS for d in (False, True) for w in ('computing_object', 'loaded_object', 'new_chain')]

    def run_impl(self, case):
        import os, shutil, sys, tempfile
        from .c05 import make_module, the_chain, in_child, describe_result
        kind = case['kind']
        tmp = tempfile.mkdtemp(prefix='tcverif-c07-')
        old = os.getcwd()
        try:
            os.chdir(tmp)
            # the first result has more parts than the second (12 arrays / 230 items / an extra file, then 3 / 6 / none)
            state = dict(run=1, runs=0, fault=None, bad=None, empty=False, big=True, extra=True)
            m = make_module(kind, state)

            def scenario():
                out = {}
                ch = the_chain(m, 'data')
                t = ch['c05:victim']
                out['v1'] = describe_result(kind, t.value)
                if case['who'] != 'computing_object':
                    ch = the_chain(m, 'data')
                    t = ch['c05:victim']
                    if case['who'] == 'loaded_object':
                        out['v_loaded'] = describe_result(kind, t.value)
                runs0 = state['runs']
                state['run'] = 2
                state['big'] = state['extra'] = False
                try:
                    ch.force('c05:victim', delete_data=case['delete'])
                    out['force'] = 'ok'
                except Exception as e:
                    out['force'] = f'{type(e).__name__}: {e}'[:200]
                out['forced'] = bool(t.is_forced)
                out['has_after_force'] = bool(the_chain(m, 'data')['c05:victim'].has_data)
                try:
                    out['v2'] = describe_result(kind, t.value)
                except Exception as e:
                    out['v2_error'] = f'{type(e).__name__}: {e}'[:200]
                out['runs_forced'] = state['runs'] - runs0
                t3 = the_chain(m, 'data')['c05:victim']
                out['has_end'] = bool(t3.has_data)
                out['v3'] = describe_result(kind, t3.value)
                out['runs_total'] = state['runs'] - runs0
                return out
            return in_child(scenario)
        finally:
            os.chdir(old)
            sys.modules.pop('tcv_dyn_c05', None)
            shutil.rmtree(tmp, ignore_errors=True)

    def oracle(self, case, obs):
        import json
        if 'unexpected_exception' in obs:
            return f'unexpected exception {obs["unexpected_exception"]}: {obs["text"]}'
        if 'child_error' in obs:
            return f'{case}: failed: {obs["child_error"]}'
        if obs['force'] != 'ok':
            return f'{case}: Chain.force(delete_data={case["delete"]}) raised {obs["force"]}'
        if not obs['forced']:
            return f'{case}: the forced task is not marked'
        if case['delete'] and obs['has_after_force']:
            return f'{case}: delete_data left the stored result in place'
        if not case['delete'] and not obs['has_after_force']:
            return f'{case}: forcing without delete_data removed the stored result'
        if 'v2_error' in obs:
            return f'{case}: the request after forcing fails: {obs["v2_error"]}'
        if obs['runs_forced'] != 1:
            return f'{case}: the request after forcing ran the task {obs["runs_forced"]} times'
        if json.dumps(obs['v2'], sort_keys=True, default=str) == json.dumps(obs['v1'], sort_keys=True, default=str):
            return f'{case}: the forced request returned the value of the first run'
        if not obs['has_end'] or obs['runs_total'] != 1:
            return f'{case}: after the forced run a new chain has_data={obs["has_end"]} and {obs["runs_total"] - 1} further run(s)'
        if json.dumps(obs['v3'], sort_keys=True, default=str) != json.dumps(obs['v2'], sort_keys=True, default=str):
            return f'{case}: a new chain loads {json.dumps(obs["v3"], default=str)[:150]}, the forced run returned {json.dumps(obs["v2"], default=str)[:150]}'
        return None

    def nontrivial(self, case, obs):
        return True

    def key(self, case):
        return repr(case)


FAIL_SRC = '''
from typing import Generator
from taskchain import Task

STATE = {'fail': False, 'runs': [], 'n': 0}

def _tick(name):
    STATE['runs'].append(name)
    STATE['n'] += 1
    return STATE['n']

class A(Task):
    def run(self) -> dict:
        return {'v': _tick('a')}

class B(Task):
    class Meta:
        input_tasks = [A]
    def run(self, a) -> dict:
        v = _tick('b')
        if STATE['fail']:
            raise RuntimeError('b fails')
        return {'v': v}

class C(Task):
    class Meta:
        input_tasks = [B]
    def run(self, b) -> dict:
        return {'v': _tick('c')}

class G(Task):
    def run(self) -> Generator:
        v = _tick('g')
        for i in range(3):
            if STATE.get('fail_gen') and i == 1:
                raise RuntimeError('generator body fails')
            yield {'v': v, 'i': i}

class U(Task):
    def run(self) -> dict:
        return {'v': _tick('u')}
'''


class FailingRecompute(Suite):
    """Chain.force(names, recompute=..., delete_data=...) while one of the forced tasks fails: with delete_data the
    stored results of every forced task that was not recomputed are gone afterwards (a later chain is not served an
    outdated result), the unrelated task keeps its result, and when the cause is gone every forced task is computed
    once.  Runtime check only (which tasks run before the failure follows a set iteration in the library)."""
    name = 'failing_recompute'
    model = ''

    def gen(self, rng, tier):
        return ([dict(delete=d, recompute=r, names=n) for d in (True, False) for r in (True, False) for n in (['a'], ['b'], ['a', 'c'])] +
                [dict(generator=True, delete=d, via=v) for d in (True, False) for v in ('task', 'chain')])

    def run_impl(self, case):
        import sys, types
        from pathlib import Path
        from taskchain import Config
        from .. import pipeline as pl
        with pl.workspace(dict(classes=[], files={})) as (d, _):
            name = 'tcv_failrec'
            m = types.ModuleType(name)
            sys.modules[name] = m
            try:
                exec(compile(FAIL_SRC, name, 'exec'), m.__dict__)

                def chain():
                    return Config(Path('data'), name='c', data={'tasks': [f'{name}.*']}).chain()
                if case.get('generator'):
                    ch = chain()
                    first = list(ch['g'].value)
                    m.STATE['fail_gen'] = True
                    (ch['g'].force(delete_data=case['delete']) if case['via'] == 'task' else ch.force('g', delete_data=case['delete']))
                    try:
                        _ = list(ch['g'].value)
                        raised = None
                    except Exception as e:
                        raised = type(e).__name__
                    forced_after_failure = bool(ch['g'].is_forced)
                    m.STATE['fail_gen'] = False
                    m.STATE['runs'].clear()
                    again = list(ch['g'].value)
                    ran = list(m.STATE['runs'])
                    m.STATE['runs'].clear()
                    fresh = list(chain()['g'].value)
                    return dict(generator=True, first=first, raised=raised, forced_after_failure=forced_after_failure, again=again, ran=ran,
                                fresh=fresh, ran_fresh=list(m.STATE['runs']))
                ch = chain()
                first = {n: t.value for n, t in ch.tasks.items()}
                m.STATE['fail'] = True
                m.STATE['runs'].clear()
                try:
                    ch.force(case['names'], recompute=case['recompute'], delete_data=case['delete'])
                    raised = None
                except Exception as e:
                    raised = type(e).__name__
                ran_forced = list(m.STATE['runs'])
                has = {n: bool(t.has_data) for n, t in chain().tasks.items()}
                stored = {n: (t.value if has[n] and n in ('a', 'u') else None) for n, t in chain().tasks.items()}
                m.STATE['fail'] = False
                m.STATE['runs'].clear()
                later = {n: t.value for n, t in chain().tasks.items()}
                return dict(first=first, raised=raised, ran_forced=ran_forced, has=has, ran_later=list(m.STATE['runs']), later=later)
            finally:
                sys.modules.pop(name, None)

    def oracle(self, case, obs):
        if 'unexpected_exception' in obs:
            return f'unexpected exception {obs["unexpected_exception"]}: {obs["text"]}'
        if obs.get('generator'):
            if obs['raised'] is None:
                return f'{case}: the failing generator body raised nothing'
            if not obs['forced_after_failure']:
                return f'{case}: the forced task lost its mark although its recomputation failed while the items were stored'
            if obs['ran'].count('g') != 1:
                return (f'{case}: after the failed forced recomputation the next request ran the task {obs["ran"].count("g")} times; the '
                        f'stored result of the first run was served instead' if not obs['ran'] else f'{case}: runs {obs["ran"]}')
            if obs['again'] == obs['first'] or obs['fresh'] != obs['again'] or obs['ran_fresh']:
                return f'{case}: after the successful retry the request yields {obs["again"]}, a new chain {obs["fresh"]} (runs {obs["ran_fresh"]})'
            return None
        down = {'a': {'a', 'b', 'c'}, 'b': {'b', 'c'}, 'c': {'c'}}
        forced = set().union(*(down[n] for n in case['names']))
        fails = case['recompute'] and 'b' in forced
        if fails and obs['raised'] is None:
            return f'{case}: the recomputation of a failing task raised nothing'
        if not fails and obs['raised'] is not None:
            return f'{case}: force raised {obs["raised"]}'
        if not obs['has']['u']:
            return f'{case}: the unrelated task lost its result'
        if case['delete']:
            ran_ok = set(obs['ran_forced']) - {'b'} if fails else set(obs['ran_forced'])
            for n in sorted(forced):
                recomputed = case['recompute'] and n in ran_ok and not (fails and n == 'c')
                if obs['has'][n] and not recomputed:
                    return (f'{case}: delete_data was asked for, {n} was not recomputed (runs during force: {obs["ran_forced"]}) and its '
                            f'stored result is still there: a later chain is served the outdated value')
        for n in sorted(forced):
            if case['delete'] and obs['later'][n] == obs['first'][n] and not (case['recompute'] and n in obs['ran_forced']):
                return f'{case}: after the cause of the failure is gone {n} still yields the value from before the forcing'
        if any(obs['ran_later'].count(n) > 1 for n in 'abcu'):
            return f'{case}: a task ran more than once afterwards: {obs["ran_later"]}'
        return None

    def nontrivial(self, case, obs):
        return True

    def key(self, case):
        return repr(case)


class ChainForceForms(Suite):
    """Chain.force(tasks) and MultiChain.force(tasks) with every form of the argument - a name, a Task, a list, a tuple, a
    set, the keys of a mapping, an iterator, a generator, a map object, lists mixing names and Task objects - with full
    names and with the shorter forms that identify a task (without its group, without its namespace), and every
    combination of delete_data and recompute: exactly the named tasks and their dependants are marked / deleted /
    recomputed once, in the chain or in every member chain.  Runtime check only (the model's force takes a list of tasks)."""
    name = 'chain_force_argument_forms'
    model = ''
    FORMS = ('name', 'task', 'list', 'tuple', 'set', 'dict_keys', 'iterator', 'generator', 'map', 'mixed')

    def gen(self, rng, tier):
        out = [dict(form=f, picks=p, delete=d, recompute=r, via='chain', spell='full', ns=False) for f in self.FORMS
               for p in (['mid'], ['mid', 'src']) for d, r in ((False, False), (True, False), (False, True))
               if not (f in ('name', 'task') and len(p) > 1)]
        # shorter forms of the names, and the same through a MultiChain
        out += [dict(form=f, picks=['mid'], delete=d, recompute=False, via=v, spell=sp, ns=ns)
                for f in ('name', 'list', 'generator') for d in (False, True) for v in ('chain', 'multi')
                for sp in ('full', 'no_group', 'no_namespace', 'bare') for ns in (False, True)
                if not (sp in ('no_namespace', 'bare') and not ns) and not (v == 'chain' and sp == 'full' and not ns)]
        out += [dict(form='list', picks=['mid', 'src'], delete=False, recompute=True, via='multi', spell='bare', ns=True)]
        return out

    def run_impl(self, case):
        from pathlib import Path
        from taskchain import Config, MultiChain
        from .. import pipeline as pl
        from ..suites_chain import K, P
        classes = [dict(K(0, 'Src'), name='src'), dict(K(1, 'Mid', group='prep', meta_inputs=[{'cls': 0}]), name='mid'),
                   dict(K(2, 'Top', meta_inputs=[{'cls': 1}], params=[P('k', default=[0])]), name='top'), dict(K(3, 'Side'), name='side')]
        with pl.workspace(dict(classes=classes, files={'p.json': {'tasks': ['@M.*']}})) as (d, mod):
            def config(i):
                data = {'uses': 'p.json as n', 'k': i} if case['ns'] else {'tasks': [f'{mod}.*'], 'k': i}
                return Config(Path('data'), name=f'c{i}', data=data, context={'k': i})
            if case['via'] == 'multi':
                mc = MultiChain([config(0), config(1)])
                chains = [ch for _, ch in sorted(mc.chains.items())]
                target = mc
            else:
                chains = [config(0).chain()]
                target = chains[0]
            for ch in chains:
                for t in ch.tasks.values():
                    _ = t.value
            pre = 'n::' if case['ns'] else ''
            full = {'src': f'{pre}src', 'mid': f'{pre}prep:mid', 'top': f'{pre}top', 'side': f'{pre}side'}
            spelled = {'full': full, 'no_group': dict(full, mid=f'{pre}mid'), 'no_namespace': {k: v[len(pre):] for k, v in full.items()},
                       'bare': {k: k for k in full}}[case['spell']]
            names = [spelled[p] for p in case['picks']]
            ch0 = chains[0]
            arg = {'name': names[0], 'task': ch0[names[0]], 'list': list(names), 'tuple': tuple(names), 'set': set(names),
                   'dict_keys': dict.fromkeys(names).keys(), 'iterator': iter(names), 'generator': (n for n in names),
                   'map': map(str, names), 'mixed': [ch0[n] if i % 2 == 0 else n for i, n in enumerate(names)]}[case['form']]
            before = len(pl.RUNLOG)
            target.force(arg, delete_data=case['delete'], recompute=case['recompute'])
            ran = sorted(r[1] for r in pl.RUNLOG[before:])
            short = {v: k for k, v in full.items()}
            per_chain = []
            for ch in chains:
                per_chain.append(dict(marked=sorted(short[n] for n, t in ch.tasks.items() if t._forced),
                                      stored=sorted(short[n] for n, t in ch.tasks.items() if t.data_path.exists())))
            before = len(pl.RUNLOG)
            for ch in chains:
                for t in ch.tasks.values():
                    _ = t.value
            return dict(ran=ran, chains=per_chain, ran_after=sorted(r[1] for r in pl.RUNLOG[before:]))

    def oracle(self, case, obs):
        if 'unexpected_exception' in obs:
            return f'unexpected exception {obs["unexpected_exception"]}: {obs["text"]}'
        down = sorted({'src': {'src', 'mid', 'top'}, 'mid': {'mid', 'top'}}['src' if 'src' in case['picks'] else 'mid'])
        slug = {'src': 'src', 'mid': 'prep:mid', 'top': 'top', 'side': 'side'}
        everything = ['mid', 'side', 'src', 'top']
        n = len(obs['chains'])
        # through a MultiChain src and mid are one object in both chains, top is one object per chain
        runs_of = lambda names: sorted(slug[x] for x in names for _ in range(n if x == 'top' else 1))
        what = (f'{"MultiChain" if case["via"] == "multi" else "Chain"}.force({case["form"]} of {case["picks"]} spelled {case["spell"]}'
                f'{" under a namespace" if case["ns"] else ""}, delete_data={case["delete"]}, recompute={case["recompute"]})')
        if case['recompute']:
            got = sorted(set(obs['ran']))
            if got != sorted(slug[x] for x in down) or obs['ran_after']:
                return f'{what}: recomputed {obs["ran"]} and later {obs["ran_after"]}; the named tasks and their dependants are {down}'
            return None
        for i, c in enumerate(obs['chains']):
            if c['marked'] != down:
                return f'{what}: chain {i} has {c["marked"]} marked; the named tasks and their dependants are {down}'
            if case['delete'] and c['stored'] != sorted(set(everything) - set(down)):
                return f'{what}: chain {i}: stored results left: {c["stored"]}; those of {down} are to be removed and no other'
        if obs['ran_after'] != runs_of(down):
            return f'{what}: the next requests ran {obs["ran_after"]}; expected {runs_of(down)}'
        return None

    def nontrivial(self, case, obs):
        return True

    def key(self, case):
        return repr(case)


UNREAD_SRC = """
from taskchain import Task

RUNS = []

class Src(Task):
    def run(self) -> dict:
        RUNS.append('src')
        return {'v': 1}

class Mid(Task):
    class Meta:
        input_tasks = [Src]
    def run(self, src) -> dict:
        RUNS.append('mid')
        return {'v': src['v'] + 1}

class Detail(Task):
    class Meta:
        input_tasks = [Mid]
    def run(self) -> dict:            # declares mid as an input and reads it only when asked for details
        RUNS.append('detail')
        return {'d': 0}

class Report(Task):
    class Meta:
        input_tasks = [Detail, Mid]
    def run(self, detail) -> dict:    # takes one input as argument, leaves the other alone
        RUNS.append('report')
        return {'r': detail['d']}
"""


class UnreadInputs(Suite):
    """forcing with recompute where dependants declare a forced task among their inputs without taking it as an argument of
    run (they would read it through self.input_tasks when they need it): every task of the closure is recomputed exactly
    once by the call itself - none is left marked for a later request -, with and without delete_data.  Runtime check only."""
    name = 'recompute_with_unread_inputs'
    model = ''

    def gen(self, rng, tier):
        return [dict(pick=p, delete=d) for p in ('src', 'mid', 'detail') for d in (False, True)]

    def run_impl(self, case):
        import sys, types
        from taskchain import Config
        from .. import pipeline as pl
        with pl.workspace(dict(classes=[], files={})) as (d, _):
            name = 'tcv_unread'
            m = types.ModuleType(name)
            sys.modules[name] = m
            try:
                exec(compile(UNREAD_SRC, name, 'exec'), m.__dict__)
                ch = Config(Path('data'), name='c', data={'tasks': [f'{name}.*']}).chain()
                for t in ch.tasks.values():
                    _ = t.value
                m.RUNS.clear()
                ch.force(case['pick'], recompute=True, delete_data=case['delete'])
                ran = sorted(m.RUNS)
                marked = sorted(n for n, t in ch.tasks.items() if t._forced)
                stored = sorted(n for n, t in ch.tasks.items() if t.data_path.exists())
                m.RUNS.clear()
                for t in ch.tasks.values():
                    _ = t.value
                return dict(ran=ran, marked=marked, stored=stored, later=sorted(m.RUNS))
            finally:
                sys.modules.pop(name, None)

    def oracle(self, case, obs):
        if 'unexpected_exception' in obs:
            return f'unexpected exception {obs["unexpected_exception"]}: {obs["text"]}'
        down = {'src': ['detail', 'mid', 'report', 'src'], 'mid': ['detail', 'mid', 'report'], 'detail': ['detail', 'report']}[case['pick']]
        if obs['ran'] != down or obs['marked'] or obs['later'] or obs['stored'] != ['detail', 'mid', 'report', 'src']:
            return (f'force({case["pick"]!r}, recompute=True, delete_data={case["delete"]}) ran {obs["ran"]}, left {obs["marked"]} marked, '
                    f'stored results of {obs["stored"]}, and later requests ran {obs["later"]}; the named task and everything downstream '
                    f'are {down}: each recomputed once by the call, nothing left for later')
        return None

    def nontrivial(self, case, obs):
        return True

    def key(self, case):
        return repr(case)


class ForceSharedObject(Suite):
    """a task object shared by two member chains of a MultiChain under different namespaces (the pipeline `stage` is
    `a` in the first member and `b` in the second, where another pipeline is `a`): Chain.force / dependent_tasks given
    that *object* act on the task it is in the chain that is asked - it and everything downstream of it there, nothing
    else - whatever name the object was created under.  Runtime check only."""
    name = 'force_shared_task_object'
    model = ''

    def gen(self, rng, tier):
        return [dict(order=o, delete=d, recompute=r, via=v) for o in ('ab', 'ba') for d in (False, True) for r in (False, True)
                for v in ('force', 'dependent_tasks')][:12 if tier == 'quick' else None]

    def run_impl(self, case):
        from pathlib import Path
        from taskchain import Config, MultiChain
        from .. import pipeline as pl
        from ..suites_chain import K, P
        classes = [dict(K(0, 'Load', params=[P('v')]), name='load'), dict(K(1, 'Clean', meta_inputs=[{'cls': 0}]), name='clean'),
                   dict(K(2, 'Compare', meta_inputs=[{'name': 'a::clean'}, {'name': 'b::clean'}]), name='compare')]
        files = {'stage.json': {'tasks': ['@M.Load', '@M.Clean'], 'v': 1}, 'other.json': {'tasks': ['@M.Load', '@M.Clean'], 'v': 2},
                 'exp1.json': {'uses': ['stage.json as a']},
                 'exp2.json': {'tasks': ['@M.Compare'], 'uses': ['stage.json as b', 'other.json as a'] if case['order'] == 'ba'
                               else ['other.json as a', 'stage.json as b']}}
        with pl.workspace(dict(classes=classes, files=files)) as (d, mod):
            mc = MultiChain([Config(Path('data'), 'exp1.json'), Config(Path('data'), 'exp2.json')])
            c1, c2 = mc.chains['exp1'], mc.chains['exp2']
            for t in list(c1.tasks.values()) + list(c2.tasks.values()):
                t.value
            obj = c2.tasks['b::load']
            out = dict(shared=obj is c1.tasks['a::load'], fullname=obj.fullname)
            if case['via'] == 'dependent_tasks':
                deps = c2.dependent_tasks(obj, include_self=True)
                out['names'] = sorted(n for n, t in c2.tasks.items() if any(t is x for x in deps))
                return out
            before = pl.runs_started()
            c2.force(obj, recompute=case['recompute'], delete_data=case['delete'])
            out['runs'] = pl.runs_started() - before
            out['flags'] = {n: bool(t.is_forced) for n, t in c2.tasks.items()}
            out['has'] = {n: bool(t.has_data) for n, t in c2.tasks.items()}
            return out

    def oracle(self, case, obs):
        if 'unexpected_exception' in obs:
            return f'unexpected exception {obs["unexpected_exception"]}: {obs["text"]}'
        want = ['b::clean', 'b::load', 'compare']
        if case['via'] == 'dependent_tasks':
            if obs['names'] != want:
                return (f'{case}: dependent_tasks of the object known as b::load (created as {obs["fullname"]}) in the second chain '
                        f'are {obs["names"]}, declared: {want}')
            return None
        if case['recompute']:
            if obs['runs'] != 3 or any(obs['flags'].values()) or not all(obs['has'].values()):
                return (f'{case}: force(recompute=True) of the object known as b::load ran {obs["runs"]} tasks (3 are downstream), '
                        f'left marks {obs["flags"]} and results {obs["has"]}')
            return None
        marked = sorted(n for n, f in obs['flags'].items() if f)
        if marked != want:
            return f'{case}: force of the object known as b::load (created as {obs["fullname"]}) marked {marked} in the second chain, declared closure: {want}'
        gone = sorted(n for n, h in obs['has'].items() if not h)
        if gone != (want if case['delete'] else []):
            return f'{case}: stored results removed: {gone}; delete_data={case["delete"]} and the closure is {want}'
        return None

    def nontrivial(self, case, obs):
        return bool(obs.get('shared'))

    def key(self, case):
        return repr(case)


class C07(Prop):
    pid = 'C07'
    suites = [Forcing(), NameModeForce(), DataKindsForce(), FailingRecompute(), ChainForceForms(), UnreadInputs(), ForceSharedObject()]
    assumptions = ['Chain.force iterates a set: the recomputation order is arbitrary, the model uses one order and the '
                   'comparison sorts the runs of that operation']


PROP = C07()
