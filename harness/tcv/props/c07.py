"""C07 - forcing recomputes exactly what was asked."""
from pathlib import Path

from ..core import Prop, Suite
from ..suites_hist import Histories


class Forcing(Histories):
    name = 'forcing_histories'
    mix = 'force'
    checks = ('force', 'values')


class NameModeForce(Suite):
    """persistence by config name (parameter_mode=False): two configs whose names are related as prefix share a data
    directory; forcing with delete_data in one chain must leave the other chain's results alone (runtime check; the
    history model is parameter mode)"""
    name = 'name_mode_forcing'
    model = ''

    def gen(self, rng, tier):
        return [dict(names=n, data=d, delete=de) for n in (['exp1', 'exp10'], ['base', 'base_v2'], ['a', 'b'])
                for d in ('json', 'dir') for de in (True, False)]

    def run_impl(self, case):
        from pathlib import Path
        from .. import pipeline as pl
        from ..suites_chain import K
        classes = [dict(K(0, 'Feat', data=case['data']), name='features'), dict(K(1, 'Score', meta_inputs=[{'cls': 0}]), name='score')]
        files = {f'{n}.json': {'tasks': ['@M.*']} for n in case['names']}
        full = dict(classes=classes, files=files, base={'file': f'{case["names"][0]}.json'}, context=None)
        with pl.workspace(full) as (d, mod):
            def chain(n):
                return pl.build_config(full, mod, base={'file': f'{n}.json'}).chain(parameter_mode=False)
            chains = {n: chain(n) for n in case['names']}
            for ch in chains.values():
                for t in ch.tasks.values():
                    t.value
            listing = lambda: sorted(str(p) for p in Path('data').rglob('*') if not p.name.endswith(('.log', '.yaml')))
            before = listing()
            first, other = case['names']
            chains[first].force('features', delete_data=case['delete'])
            after = listing()
            pl.RUNLOG.clear()
            fresh = chain(other)
            has = {n: bool(t.has_data) for n, t in fresh.tasks.items()}
            for t in fresh.tasks.values():
                t.value
            flags = {n: bool(t.is_forced) for n, t in chains[first].tasks.items()}
            return dict(before=before, after=after, other_has=has, other_runs=[s for _, s, _ in pl.RUNLOG], flags=flags)

    def oracle(self, case, obs):
        if 'unexpected_exception' in obs:
            return f'unexpected exception {obs["unexpected_exception"]}: {obs["text"]}'
        first, other = case['names']
        owner = lambda p: (Path(p).parts[2].split('.')[0] if len(Path(p).parts) > 2 else '')
        mine = lambda p: owner(p) in (first, first + '_tmp', first + '_old', first + '_error')
        lost = [p for p in obs['before'] if p not in obs['after'] and not mine(p)]
        if lost:
            return f'{case}: forcing in the chain of `{first}` removed results of the chain of `{other}`: {lost}'
        if not all(obs['flags'].values()):
            return f'{case}: forcing `features` did not mark everything downstream: {obs["flags"]}'
        if not all(obs['other_has'].values()) or obs['other_runs']:
            return (f'{case}: the never-forced chain of `{other}` has_data={obs["other_has"]} and ran {obs["other_runs"]} '
                    f'after forcing in the chain of `{first}`')
        left = [p for p in obs['after'] if owner(p) == first]
        if case['delete'] and left:
            return f'{case}: delete_data left results of the forced tasks: {left}'
        return None

    def nontrivial(self, case, obs):
        return True

    def key(self, case):
        return repr(case)


class C07(Prop):
    pid = 'C07'
    suites = [Forcing(), NameModeForce()]
    assumptions = ['Chain.force iterates a set: the recomputation order is arbitrary, the model uses one order and the '
                   'comparison sorts the runs of that operation']


PROP = C07()
