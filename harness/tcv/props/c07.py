"""C07 - forcing recomputes exactly what was asked."""
from ..core import Prop
from ..suites_hist import Histories


class Forcing(Histories):
    name = 'forcing_histories'
    mix = 'force'
    checks = ('force', 'values')


class C07(Prop):
    pid = 'C07'
    suites = [Forcing()]
    assumptions = ['Chain.force iterates a set: the recomputation order is arbitrary, the model uses one order and the '
                   'comparison sorts the runs of that operation']


PROP = C07()
