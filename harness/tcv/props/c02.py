"""C02 - storage location depends only on what goes into the computation."""
import copy
import json
import os
import subprocess
import sys

from ..core import Prop, Suite
from ..coqlit import cpair
from .. import pipeline as pl
from ..suites_chain import ChainBuild, cobs, CONSTRUCTION_ERRORS
from ..suites_l0 import Registry

NS_NEW = ['w', 'outer::w', 'n', 'zz']


def shuffle_dict(rng, d):
    items = list(d.items())
    rng.shuffle(items)
    return dict(items)


def shuffle_value(rng, v):
    if isinstance(v, list):
        return [shuffle_value(rng, x) for x in v]
    if isinstance(v, dict):
        if any(k.startswith('__') for k in v):
            return v
        return shuffle_dict(rng, {k: shuffle_value(rng, x) for k, x in v.items()})
    return v


def shuffle_object_args(rng, v, changed):
    """permute mapping keys INSIDE the arguments of parameter objects (and the keyword order of instantiated ones)"""
    if isinstance(v, list):
        return [shuffle_object_args(rng, x, changed) for x in v]
    if isinstance(v, dict):
        if '__auto__' in v or '__inst__' in v:
            o = copy.deepcopy(v)
            for field in ('args', 'kwargs'):
                if isinstance(o.get(field), dict):
                    new = {k: shuffle_value(rng, x) for k, x in o[field].items()}
                    if field == 'kwargs':
                        new = shuffle_dict(rng, new)
                    if json.dumps(new) != json.dumps(o[field]):
                        changed.append(1)
                    o[field] = new
                elif isinstance(o.get(field), list):
                    new = [shuffle_value(rng, x) for x in o[field]]
                    if json.dumps(new) != json.dumps(o[field]):
                        changed.append(1)
                    o[field] = new
            return o
        if any(k.startswith('__') for k in v):
            return v
        return {k: shuffle_object_args(rng, x, changed) for k, x in v.items()}
    return v


def rewrite_case(rng, case):
    """A computation-preserving rewriting of a configuration; returns (new case, moves, rename)."""
    c = copy.deepcopy(case)
    moves = []
    prefix = ''
    # 0. (alone, so that nothing else hides behind it) mapping keys inside the arguments of parameter objects
    if rng.random() < 0.2:
        changed = []
        c['files'] = {f: shuffle_object_args(rng, doc, changed) for f, doc in c['files'].items()}
        if 'data' in c['base']:
            c['base'] = {'name': c['base']['name'], 'data': shuffle_object_args(rng, c['base']['data'], changed)}
        if changed:
            return c, ['permute-object-args'], prefix
        c = copy.deepcopy(case)
    # 1. rename / move config files
    if c['files'] and rng.random() < 0.6:
        ren = {f: f'moved/{i}_' + f.split('/')[-1] for i, f in enumerate(c['files'])}

        def fix_ref(s):
            for old, new in ren.items():
                if s == old or s.startswith(old + ' as ') or s.startswith(old + '#'):
                    return new + s[len(old):]
            return s

        def fix_doc(doc):
            if 'configs' in doc:
                return {'configs': {k: fix_doc(v) for k, v in doc['configs'].items()}}
            d = dict(doc)
            if 'uses' in d:
                d['uses'] = fix_ref(d['uses']) if isinstance(d['uses'], str) else [fix_ref(u) for u in d['uses']]
            return d
        c['files'] = {ren[f]: fix_doc(doc) for f, doc in c['files'].items()}
        if 'file' in c['base']:
            c['base'] = {'file': fix_ref(c['base']['file'])}
        else:
            c['base'] = {'name': c['base']['name'] + '_renamed', 'data': fix_doc(c['base']['data'])}

        def fix_ctx(x):
            if x is None:
                return None
            if 'file' in x:
                return {'file': fix_ref(x['file'])}
            if 'list' in x:
                return {'list': [fix_ctx(y) for y in x['list']]}
            return x
        c['context'] = fix_ctx(c.get('context'))
        moves.append('rename-files')
    # 2. permutations: parameter declarations, tasks lists, mapping keys at any depth
    if rng.random() < 0.8:
        for k in c['classes']:
            rng.shuffle(k['params'])

        def perm_doc(doc):
            if 'configs' in doc:
                return {'configs': {kk: perm_doc(v) for kk, v in doc['configs'].items()}}
            d = {kk: (shuffle_value(rng, v) if kk not in ('tasks', 'uses', 'excluded_tasks') else v) for kk, v in doc.items()}
            if isinstance(d.get('tasks'), list):
                d['tasks'] = list(d['tasks'])
                rng.shuffle(d['tasks'])
            return shuffle_dict(rng, d)
        c['files'] = {f: (perm_doc(doc) if not f.startswith('ctx/') and not f.startswith('moved/') or 'tasks' in doc or 'uses' in doc or 'configs' in doc else doc)
                      for f, doc in c['files'].items()}
        if 'data' in c['base']:
            c['base'] = {'name': c['base']['name'], 'data': perm_doc(c['base']['data'])}
        moves.append('permute')
    # 3. extra parameters that are excluded from persistence
    if rng.random() < 0.6:
        for k in c['classes']:
            if rng.random() < 0.5:
                k['params'].append(dict(name='zz_ign', cfg='zz_ign', default=[0], ignore=True, dropdef=False, dtype='any'))
            if rng.random() < 0.5:
                k['params'].append(dict(name='zz_def', cfg='zz_def', default=[[1, 'd']], ignore=False, dropdef=True, dtype='any'))
        moves.append('extra-unpersisted-params')
    # 4. different values for the placeholders
    if c.get('global_vars') and rng.random() < 0.7:
        c['global_vars'] = {k: rng.choice(['other', '/somewhere/else', 3]) for k in c['global_vars']}
        moves.append('global-vars')
    # 5. mount the whole pipeline under a namespace
    if rng.random() < 0.5:
        ns = rng.choice(NS_NEW)
        if 'data' in c['base']:
            c['files']['wrapped/base.json'] = c['base']['data']
            ref = 'wrapped/base.json'
        else:
            ref = c['base']['file']
        c['base'] = {'name': 'wrapper', 'data': {'uses': f'{ref} as {ns}'}}

        def ns_ctx(x):
            if x is None:
                return None
            if 'dict' in x:
                d = dict(x['dict'])
                if 'for_namespaces' in d:
                    d['for_namespaces'] = {f'{ns}::{k}': v for k, v in d['for_namespaces'].items()}
                return {'dict': d}
            if 'file' in x:
                f = x['file']
                d = dict(c['files'][f])
                if 'for_namespaces' in d:
                    d['for_namespaces'] = {f'{ns}::{k}': v for k, v in d['for_namespaces'].items()}
                c['files'][f] = d
                return x
            return {'list': [ns_ctx(y) for y in x['list']]}
        c['context'] = ns_ctx(c.get('context'))
        prefix = ns + '::'
        # K4: a name written in a declaration that starts with the mounting namespace is taken for a full name
        collides = any('name' in r and not r['name'].startswith('~') and r['name'].startswith(ns + '::')
                       for k in c['classes'] for r in list(k['meta_inputs']) + [i['ref'] for i in k['param_inputs']])
        moves.append('mount:' + ns + (':reference-names-mount-namespace' if collides else ''))
    return c, moves, prefix


from .c13 import DataDirs      # the data directory is the first component of every location, whichever chain is built first

from .c12 import Naming        # the group levels of a location come from the naming rule, whatever was named before in the process

class Rewrites(Suite):
    """(configuration, computation-preserving rewriting): corresponding tasks keep their location"""
    name = 'rewritings'
    imports = 'Value Dict Repr Param Config Key Chain World'
    shard = 8
    in_type = '((world * (str + (str * cfgdata))) * (world * (str + (str * cfgdata))))'
    out_type = '(value * value)'
    eqb = '(fun a b : value * value => value_eqb (fst a) (fst b) && value_eqb (snd a) (snd b))'
    model = ('(fun c : (world * (str + (str * cfgdata))) * (world * (str + (str * cfgdata))) => '
             '(render_build (build sha_key (fst (fst c)) (snd (fst c)) [] []), '
             'render_build (build sha_key (fst (snd c)) (snd (snd c)) [] [])))')

    def corpus(self):
        from ..suites_chain import K, P
        cls = [dict(K(0, 'Src', params=[P('sel')]), name='src'), dict(K(1, 'Dst', meta_inputs=[{'cls': 0}]), name='dst')]
        mk = lambda sel: dict(classes=cls, files={}, context=None, base={'name': 'm', 'data': {'tasks': ['@M.*'], 'sel': sel}})
        auto = lambda d: {'__auto__': 'AutoA', 'args': {'a': d, 'b': 2}}
        inst = lambda kw: {'__inst__': 'Plain', 'args': [1], 'kwargs': kw}
        out = [dict(orig=mk(inst({'k': 1, 'a': 2})), rewr=mk(inst({'a': 2, 'k': 1})), moves=['permute-object-args'], prefix=''),
               dict(orig=mk({'k': {'z': 1, 'b': 'q'}}), rewr=mk({'k': {'b': 'q', 'z': 1}}), moves=['permute'], prefix='')]
        # parameter objects defined in the config *inside* a list or a mapping value: keyword order of the definition, an
        # ignored argument (verbose), a default-valued argument spelled out - the object's own repr() decides, not its definition
        a1 = lambda **kw: {'__auto__': 'AutoA', 'args': kw}
        for o1, o2, tag in ((a1(a=1, b=2), a1(b=2, a=1), 'permute-nested-definition'),
                            (a1(a=1, b=2), a1(a=1, b=2, verbose=True), 'nested-ignored-argument'),
                            (a1(a=[1, 'x'], b=2), a1(verbose=True, b=2, a=[1, 'x']), 'permute-nested-definition')):
            out.append(dict(orig=mk([o1, 'plain']), rewr=mk([o2, 'plain']), moves=[tag], prefix=''))
            out.append(dict(orig=mk({'first': o1, 'n': 1}), rewr=mk({'first': o2, 'n': 1}), moves=[tag], prefix=''))
        # mapping keys permuted inside programmatically built data whose mappings are subclasses of dict
        for kind in ('ordered', 'attr', 'default'):
            out.append(dict(orig=dict(mk({'k': {'z': 1, 'b': {'y': [1], 'a': 2}}}), mapping_class=kind),
                            rewr=dict(mk({'k': {'b': {'a': 2, 'y': [1]}, 'z': 1}}), mapping_class=kind), moves=['permute'], prefix=''))
        # a default-valued parameter (dont_persist_default_value) spelled out in the config, for each dtype
        for dt, default, spelled in (('path', '/data/work', '/data/work'), ('int', 3, 3), ('float', 2.5, 2.5), ('str', 'd', 'd'),
                                     ('list', [1, 'd'], [1, 'd']), ('dict', {'a': 1}, {'a': 1}), ('bool', True, True), ('any', None, None)):
            c2 = [dict(K(0, 'Src', params=[P('sel'), P('opt', default=[default], dropdef=True, dtype=dt)]), name='src'),
                  dict(K(1, 'Dst', meta_inputs=[{'cls': 0}]), name='dst')]
            if default is None:
                continue
            a = dict(classes=c2, files={}, context=None, base={'name': 'm', 'data': {'tasks': ['@M.*'], 'sel': 1}})
            b = dict(classes=c2, files={}, context=None, base={'name': 'm', 'data': {'tasks': ['@M.*'], 'sel': 1, 'opt': spelled}})
            out.append(dict(orig=a, rewr=b, moves=['spell-out-default:' + dt], prefix=''))
        # parameters whose names differ only in letter case, declared in both orders
        for names in (['n', 'N'], ['k', 'seed', 'K'], ['Alpha', 'alpha', 'ALPHA']):
            def cls_with(order):
                return [dict(K(0, 'Src', params=[P(nm) for nm in order]), name='src'), dict(K(1, 'Dst', meta_inputs=[{'cls': 0}]), name='dst')]
            data = dict({'tasks': ['@M.*']}, **{nm: i for i, nm in enumerate(names)})
            out.append(dict(orig=dict(classes=cls_with(names), files={}, context=None, base={'name': 'm', 'data': data}),
                            rewr=dict(classes=cls_with(names[::-1]), files={}, context=None, base={'name': 'm', 'data': data}),
                            moves=['permute-declarations'], prefix=''))
        # a placeholder string under dont_persist_default_value: with one value of the placeholder the substituted
        # string equals the default (the parameter is dropped from the key), with another it does not (K2c)
        cp = [dict(K(0, 'Src', params=[P('sel'), P('q', default=['/mnt/x'], dropdef=True)]), name='src'),
              dict(K(1, 'Dst', meta_inputs=[{'cls': 0}]), name='dst')]
        gv_case = lambda d: dict(classes=cp, files={}, context=None, global_vars={'D': d},
                                 base={'name': 'm', 'data': {'tasks': ['@M.*'], 'sel': 1, 'q': '{D}/x'}})
        out.append(dict(orig=gv_case('/mnt'), rewr=gv_case('/srv'), moves=['global-vars:placeholder-equals-default'], prefix=''))
        out.append(dict(orig=gv_case('/a'), rewr=gv_case('/srv'), moves=['global-vars'], prefix=''))
        # a string with an unresolved placeholder and a quote or backslash, without global_vars and with global_vars
        # that do not define the placeholder: the value is the same string both times (K2e)
        for text in ("it's {Y}", 'back\\slash {Y}', 'plain {Y}'):
            ph = lambda gv: dict(dict(classes=cls, files={}, context=None, base={'name': 'm', 'data': {'tasks': ['@M.*'], 'sel': text}}),
                                 **({} if gv is None else {'global_vars': gv}))
            special = text != 'plain {Y}'
            out.append(dict(orig=ph(None), rewr=ph({'OTHER': 1}), prefix='',
                            moves=['global-vars:given-or-not' + (':quoted-placeholder-text' if special else '')]))
            out.append(dict(orig=ph({}), rewr=ph({'OTHER': 1}), moves=['global-vars'], prefix=''))
        # an optional input that is absent in the task's own namespace while a sub-namespace has a task of that name:
        # absent both when the pipeline is built directly and when it is mounted
        oc = [dict(K(0, 'Extra', params=[P('sel')]), name='extra'),
              dict(K(1, 'Dep', param_inputs=[dict(ref={'name': 'extra'}, default=[99])]), name='dep'),
              dict(K(2, 'Top', meta_inputs=[{'cls': 1}]), name='top')]
        inner = {'tasks': ['@M.Dep', '@M.Top'], 'uses': 'side.json as side'}
        side = {'side.json': {'tasks': ['@M.Extra'], 'sel': 1}}
        out.append(dict(orig=dict(classes=oc, files=dict(side), context=None, base={'name': 'm', 'data': inner}),
                        rewr=dict(classes=oc, files=dict(side, **{'wrapped/base.json': inner}), context=None,
                                  base={'name': 'wrapper', 'data': {'uses': 'wrapped/base.json as mnt'}}),
                        moves=['mount:mnt'], prefix='mnt::'))
        # an input named with a sub-namespace (`n::n`, `n::g:n`, a required one too) in a pipeline that is then mounted
        # under a namespace of that very name: the name is taken for a full name and the input is rebound (K4)
        for ref, required in (('n::n', False), ('n::g:n', False), ('sub::feat', True)):
            nsname = ref.split('::')[0]
            nc = [dict(K(0, 'K00', group='g', params=[P('p')]), name='n'),
                  dict(K(1, 'K01', param_inputs=[dict(ref={'name': ref}, default=None if required else ['dflt'])]), name='xn'),
                  dict(K(2, 'Feat', params=[P('p')]), name='feat')]
            inner = {'tasks': ['@M.K00', '@M.K01'], 'p': 1, **({'uses': 'sub.json as sub'} if required else {})}
            files = {'sub.json': {'tasks': ['@M.Feat'], 'p': 2}} if required else {}
            out.append(dict(orig=dict(classes=nc, files=dict(files), context=None, base={'name': 'm', 'data': inner}),
                            rewr=dict(classes=nc, files=dict(files, **{'wrapped/base.json': inner}), context=None,
                                      base={'name': 'wrapper', 'data': {'uses': f'wrapped/base.json as {nsname}'}}),
                            moves=[f'mount:{nsname}:reference-names-mount-namespace'], prefix=f'{nsname}::'))
        # an input in a nested namespace (`pretrain::feat`), the pipeline mounted under a namespace whose name ends the inner
        # one (`train`, `rain`) or repeats it after a prefix: only the leading own namespace is cut from the input names
        nc2 = [dict(K(0, 'Feat', params=[P('p')]), name='feat'), dict(K(1, 'Model', meta_inputs=[{'name': 'pretrain::feat'}]), name='model'),
               dict(K(2, 'Top', meta_inputs=[{'cls': 1}]), name='top')]
        inner2 = {'tasks': ['@M.Model', '@M.Top'], 'uses': 'feat.json as pretrain'}
        files2 = {'feat.json': {'tasks': ['@M.Feat'], 'p': 2}}
        for nsname in ('train', 'rain', 'stage::train', 'exp'):
            out.append(dict(orig=dict(classes=nc2, files=dict(files2), context=None, base={'name': 'm', 'data': inner2}),
                            rewr=dict(classes=nc2, files=dict(files2, **{'wrapped/base.json': inner2}), context=None,
                                      base={'name': 'wrapper', 'data': {'uses': f'wrapped/base.json as {nsname}'}}),
                            moves=[f'mount:{nsname}'], prefix=f'{nsname}::'))
        # two used config files of one base name in different directories; renaming one of them moves nothing
        pc = [dict(K(0, 'PartEu', params=[P('sel')]), name='part_eu'), dict(K(1, 'PartUs', params=[P('sel')]), name='part_us'),
              dict(K(2, 'Collect', meta_inputs=[{'name': '~part_.*'}]), name='collect'),
              dict(K(3, 'Top', meta_inputs=[{'cls': 2}]), name='top')]
        def two_files(us):
            return dict(classes=pc, files={'eu/part.json': {'tasks': ['@M.PartEu'], 'sel': 1}, us: {'tasks': ['@M.PartUs'], 'sel': 2}},
                        context=None, base={'name': 'm', 'data': {'tasks': ['@M.Collect', '@M.Top'], 'uses': ['eu/part.json', us]}})
        out.append(dict(orig=two_files('us/part_us.json'), rewr=two_files('us/part.json'), moves=['rename-files'], prefix=''))
        out.append(dict(orig=two_files('us/part.yaml'), rewr=two_files('us/other.json'), moves=['rename-files'], prefix=''))
        # two mounted configs declare the same classes, one of them excludes a class: the order of the `uses` entries moves nothing
        xc = [dict(K(0, 'PartA', params=[P('sel')]), name='part_a'), dict(K(1, 'PartB', params=[P('sel')]), name='part_b'),
              dict(K(2, 'Collector', meta_inputs=[{'name': '~part_.*'}], param_inputs=[dict(ref={'name': 'part_b'}, default=[0])][:0]), name='collector')]
        xf = {'eu.json': {'tasks': ['@M.*'], 'excluded_tasks': ['@M.PartB'], 'sel': 1}, 'us.json': {'tasks': ['@M.*'], 'sel': 2}}
        for first, second in ((['eu.json as eu', 'us.json as us'], ['us.json as us', 'eu.json as eu']),):
            out.append(dict(orig=dict(classes=xc, files=dict(xf), context=None, base={'name': 'm', 'data': {'uses': first}}),
                            rewr=dict(classes=xc, files=dict(xf), context=None, base={'name': 'm', 'data': {'uses': second}}),
                            moves=['permute'], prefix=''))
        # a pattern input beside a sub-pipeline that holds a matching task: built directly and mounted, the pattern collects
        # the tasks of the declaring task's own namespace only
        fc = [dict(K(0, 'FeatA', params=[P('sel')]), name='feat_a'), dict(K(1, 'FeatB', params=[P('sel')]), name='feat_b'),
              dict(K(2, 'Collect', meta_inputs=[{'name': '~feat_.*'}]), name='collect'), dict(K(3, 'Top', meta_inputs=[{'cls': 2}]), name='top')]
        finner = {'tasks': ['@M.FeatA', '@M.Collect', '@M.Top'], 'sel': 1, 'uses': 'side.json as side'}
        fside = {'side.json': {'tasks': ['@M.FeatB'], 'sel': 2}}
        out.append(dict(orig=dict(classes=fc, files=dict(fside), context=None, base={'name': 'm', 'data': finner}),
                        rewr=dict(classes=fc, files=dict(fside, **{'wrapped/base.json': finner}), context=None,
                                  base={'name': 'wrapper', 'data': {'uses': 'wrapped/base.json as mnt'}}),
                        moves=['mount:mnt'], prefix='mnt::'))
        # inputs collected by a pattern: the order in which the tasks are declared must not matter
        parts = [dict(K(i, f'Part{i}', params=[P('sel')]), name=f'part_{n}') for i, n in enumerate(['b', 'a', 'c'])]
        coll = dict(K(3, 'Collect', meta_inputs=[{'name': '~part_.*'}]), name='collect')
        top = dict(K(4, 'Top', meta_inputs=[{'cls': 3}]), name='top')
        for order in ([0, 1, 2, 3, 4], [2, 0, 1, 3, 4], [1, 2, 0, 4, 3]):
            names = [f'@M.{(parts + [coll, top])[i]["cname"]}' for i in order]
            base0 = {'name': 'm', 'data': {'tasks': ['@M.Part0', '@M.Part1', '@M.Part2', '@M.Collect', '@M.Top'], 'sel': 1}}
            out.append(dict(orig=dict(classes=parts + [coll, top], files={}, context=None, base=base0),
                            rewr=dict(classes=parts + [coll, top], files={}, context=None,
                                      base={'name': 'm', 'data': {'tasks': names, 'sel': 1}}), moves=['permute-tasks'], prefix=''))
        return out

    def gen(self, rng, tier):
        from ..gen_pipeline import gen_case
        out = []
        for _ in range(40 if tier == 'quick' else 1200):
            c = gen_case(rng)
            c2, moves, prefix = rewrite_case(rng, c)
            out.append(dict(orig=c, rewr=c2, moves=moves, prefix=prefix))
        return out

    def build(self, case):
        with pl.workspace(case) as (d, mod):
            try:
                return pl.observe_chain(pl.build_config(case, mod).chain(), with_paths=True)
            except CONSTRUCTION_ERRORS as e:
                return dict(error=type(e).__name__, text=str(e)[:200])

    def run_impl(self, case):
        return dict(a=self.build(case['orig']), b=self.build(case['rewr']))

    def encode(self, case, obs):
        i = cpair(cpair(pl.cworld(case['orig'], 'M'), pl.cbase(case['orig']['base'], 'M')),
                  cpair(pl.cworld(case['rewr'], 'M'), pl.cbase(case['rewr']['base'], 'M')))
        return i, cpair(cobs(obs.get('a', {})), cobs(obs.get('b', {})))

    def oracle(self, case, obs):
        if 'unexpected_exception' in obs:
            return f'unexpected exception {obs["unexpected_exception"]}: {obs["text"]}'
        a, b = obs['a'], obs['b']
        if 'error' in a or 'error' in b:
            return None
        for n, t in a['tasks'].items():
            n2 = case['prefix'] + n
            if n2 not in b['tasks']:
                return f'after {case["moves"]} task {n} has no counterpart {n2}'
            if t['path'] != b['tasks'][n2]['path']:
                return (f'after {case["moves"]} the location of {n} moved from {t["path"]} to {b["tasks"][n2]["path"]}')
        return None

    def nontrivial(self, case, obs):
        return 'tasks' in obs.get('a', {}) and 'tasks' in obs.get('b', {}) and len(obs['a']['tasks']) >= 2 and bool(case['moves'])

    def key(self, case):
        return repr(case)

    def distribution(self, cases, obs):
        d = dict(moves={}, both_built=0)
        for c, o in zip(cases, obs):
            for m in c['moves']:
                m = m.split(':')[0]
                d['moves'][m] = d['moves'].get(m, 0) + 1
            d['both_built'] += 'tasks' in o.get('a', {}) and 'tasks' in o.get('b', {})
        return d


def object_order_class(violation, known):
    """K2a: the only rewriting applied permuted mapping keys / keyword order inside a parameter object's arguments"""
    return violation.get('suite') == 'rewritings' and violation.get('case', {}).get('moves') == ['permute-object-args']


SEED_SCRIPT = r"""
import json, sys
from pathlib import Path
from tcv import pipeline as pl
from tcv.values import _module
from tcv.suites_chain import CONSTRUCTION_ERRORS
_module()
case = json.loads(sys.stdin.read())
with pl.workspace(case) as (d, mod):
    try:
        chain = pl.build_config(case, mod).chain()
        print('KEYS ' + json.dumps({n: t.name_for_persistence for n, t in chain.tasks.items()}, sort_keys=True))
    except CONSTRUCTION_ERRORS as e:
        print('KEYS ' + json.dumps({'__construction_error__': type(e).__name__}))
"""


class ObjectArgOrder(Suite):
    """parameter objects whose arguments contain mappings: the order in which the mapping was written must not
    enter the text that is hashed (registry level, runtime check)"""
    name = 'object_argument_order'
    model = ''

    def gen(self, rng, tier):
        from ..values import rand_value
        out = [dict(cls='AutoA', arg='a', value={'z': 1, 'b': 'q'}), dict(cls='AutoB', arg='x', value=[{'k': 1, 'j': [2]}]),
               dict(cls='AutoA', arg='a', value=[1, 'x']), dict(cls='AutoA', arg='a', value={'only': {'one': 1}})]
        for _ in range(6 if tier == 'quick' else 200):
            out.append(dict(cls=rng.choice(['AutoA', 'AutoB']), arg=None, value=rand_value(rng, 3, False, False)))
        for c in out:
            c['arg'] = c['arg'] or ('a' if c['cls'] == 'AutoA' else 'x')
            c['seed'] = rng.randrange(10 ** 6)
        return out

    def run_impl(self, case):
        import random
        from taskchain.parameter import Parameter, ParameterRegistry
        from ..values import materialize
        texts = []
        for v in (case['value'], shuffle_value(random.Random(case['seed']), case['value'])):
            reg = ParameterRegistry([Parameter('p')])
            reg.set_values({'p': materialize({'__auto__': case['cls'], 'args': {case['arg']: v}})})
            texts.append(reg.repr)
        return dict(texts=texts)

    def oracle(self, case, obs):
        if 'unexpected_exception' in obs:
            return f'unexpected exception {obs["unexpected_exception"]}: {obs["text"]}'
        if obs['texts'][0] != obs['texts'][1]:
            return (f'{case["cls"]}({case["arg"]}=...) with the mapping keys of the argument written in another order gives '
                    f'another text: {obs["texts"][0]!r} vs {obs["texts"][1]!r}')
        return None

    def nontrivial(self, case, obs):
        import random
        return json.dumps(case['value']) != json.dumps(shuffle_value(random.Random(case['seed']), case['value']))

    def key(self, case):
        return repr(case)


def object_arg_order_class(violation, known):
    """K2a at registry level: the value handed to the object contains a mapping with two or more keys"""
    def multi(v):
        if isinstance(v, list):
            return any(multi(x) for x in v)
        if isinstance(v, dict):
            return len(v) >= 2 or any(multi(x) for x in v.values())
        return False
    return violation.get('suite') == 'object_argument_order' and multi(violation.get('case', {}).get('value'))


class HashSeeds(Suite):
    """the same configuration built by fresh interpreters under different PYTHONHASHSEED values: every key must be
    the same in all of them (runtime matter: the hash seed is not in the model)"""
    name = 'fresh_interpreters'
    model = ''

    def corpus(self):
        from ..suites_chain import K, P
        cls = [dict(K(0, 'Src', params=[P('sel'), P('x')]), name='src'), dict(K(1, 'Dst', meta_inputs=[{'cls': 0}]), name='dst')]
        mk = lambda sel: dict(classes=cls, files={}, context=None,
                              base={'name': 'm', 'data': {'tasks': ['@M.*'], 'sel': sel, 'x': {'b': [1, 2], 'a': 'é'}}})
        return [dict(case=mk({'__auto__': 'AutoS', 'args': {'tags': ['alpha', 'beta', 'gamma', 'delta']}}), seeds=[1, 2, 3]),
                dict(case=mk({'__auto__': 'AutoA', 'args': {'a': ['alpha', 'beta'], 'b': {'k': 1, 'j': 2}}}), seeds=[1, 2]),
                dict(case=mk(['alpha', {'z': 1, 'y': [2.5, None]}]), seeds=[1, 2])]

    def gen(self, rng, tier):
        from ..gen_pipeline import gen_case
        out = []
        n = 1 if tier == 'quick' else 25
        while len(out) < n:
            c = gen_case(rng)
            if 'global_vars' in c:
                continue
            out.append(dict(case=c, seeds=rng.sample(range(1, 1000), 2)))
        return out

    def run_impl(self, pair):
        res = {}
        for seed in pair['seeds']:
            env = dict(os.environ, PYTHONHASHSEED=str(seed))
            p = subprocess.run([sys.executable, '-c', SEED_SCRIPT], input=json.dumps(pair['case']), env=env,
                               capture_output=True, text=True, timeout=120)
            line = next((l for l in p.stdout.splitlines() if l.startswith('KEYS ')), None)
            res[str(seed)] = json.loads(line[5:]) if line else dict(error=(p.stderr or '')[-200:].strip().splitlines()[-1:] or ['?'])
        return dict(by_seed=res)

    def oracle(self, pair, obs):
        if 'unexpected_exception' in obs:
            return f'unexpected exception {obs["unexpected_exception"]}: {obs["text"]}'
        runs = list(obs['by_seed'].items())
        if any('error' in r for _, r in runs):
            return f'the fresh interpreter could not run the case: {runs}'
        s0, k0 = runs[0]
        for s, k in runs[1:]:
            for n in k0:
                if k.get(n) != k0[n]:
                    return (f'the key of {n} is {k0[n]} under PYTHONHASHSEED={s0} and {k.get(n)} under PYTHONHASHSEED={s} '
                            f'for the same configuration')
        return None

    def nontrivial(self, pair, obs):
        return all('error' not in r and '__construction_error__' not in r for r in obs.get('by_seed', {}).values())

    def key(self, pair):
        return repr(pair)


def has_set_attribute(v):
    if isinstance(v, list):
        return any(has_set_attribute(x) for x in v)
    if isinstance(v, dict):
        if v.get('__auto__') == 'AutoS' and len(set(v['args'].get('tags', []))) >= 2:
            return True
        return any(has_set_attribute(x) for x in v.values())
    return False


def placeholder_default_class(violation, known):
    """K2c: the only rewriting changed global_vars, and a parameter under dont_persist_default_value holds a placeholder
    string that equals its default under one of the two values"""
    if violation.get('suite') != 'rewritings':
        return False
    case = violation.get('case', {})
    moves = case.get('moves') or []
    if moves == ['global-vars:placeholder-equals-default']:
        return True
    # the same finding inside a composed rewriting: the values of the placeholders were changed, and the task whose
    # location moved has a parameter under dont_persist_default_value that holds a substituted string which equals its
    # default before or after the rewriting, but not both times
    if violation.get('model_disagrees') or not any(str(m).startswith('global-vars') for m in moves):
        return False
    import re
    m = re.search(r'the location of (\S+) moved', str(violation.get('oracle', '')))
    obs = violation.get('observed') or {}
    if not m or 'a' not in obs or 'b' not in obs:
        return False
    name = m.group(1)
    ta = obs['a'].get('tasks', {}).get(name)
    tb = obs['b'].get('tasks', {}).get(case.get('prefix', '') + name)
    if not ta or not tb:
        return False
    shown = lambda v: v['__reprstr__'][0] if isinstance(v, dict) and '__reprstr__' in v else None
    for k in case.get('orig', {}).get('classes', []):
        slug = (k.get('group') + ':' if k.get('group') else '') + k['name']
        if slug != ta.get('slug'):
            continue
        for prm in k['params']:
            if not prm.get('dropdef') or prm.get('default') is None:
                continue
            va, vb = shown(ta['params'].get(prm['name'])), shown(tb['params'].get(prm['name']))
            if va is not None and vb is not None and (va == prm['default'][0]) != (vb == prm['default'][0]):
                return True
    return False


def quoted_placeholder_class(violation, known):
    """K2e: the only rewriting is whether global_vars is given at all, and a string holds an unresolved placeholder
    together with a quote or backslash"""
    return (violation.get('suite') == 'rewritings'
            and violation.get('case', {}).get('moves') == ['global-vars:given-or-not:quoted-placeholder-text'])


def mount_namespace_reference_class(violation, known):
    """K4: the pipeline is mounted under a namespace, and a name written in an input declaration starts with that very
    namespace (`n::n` mounted `as n`): the code takes it for a full name; the model does the same, the rewriting
    oracle sees the location move"""
    return (violation.get('suite') == 'rewritings' and not violation.get('model_disagrees')
            and any(str(m).endswith(':reference-names-mount-namespace') for m in violation.get('case', {}).get('moves', []))
            and 'the location of' in str(violation.get('oracle', '')))


def path_default_class(violation, known):
    """K2d: a Path-typed parameter (not under dont_persist_default_value) whose default is a Path object: left out it is
    rendered as repr(Path) - PosixPath('...') -, spelled out as the string"""
    return violation.get('suite') == 'path_defaults' and str(violation.get('oracle', '')).startswith('[path-default-repr]')


def hash_seed_class(violation, known):
    """K2b: a parameter object that keeps a SET of strings as an attribute - its repr follows the hash seed"""
    return violation.get('suite') == 'fresh_interpreters' and has_set_attribute(violation.get('case', {}).get('case', {}))


PATH_SRC = '''
from pathlib import Path
from taskchain import Task, Parameter

class Load(Task):
    class Meta:
        parameters = [Parameter('source'),
                      Parameter('workdir', dtype=Path, default=__DEFAULT__, dont_persist_default_value=__DROP__),
                      Parameter('limit', dtype=int, default=10, dont_persist_default_value=True)]
    def run(self, source, workdir, limit) -> str:
        return f'{source}@{workdir}[:{limit}]'

class Stats(Task):
    class Meta:
        input_tasks = [Load]
    def run(self, load) -> int:
        return len(load)
'''


class PathDefaults(Suite):
    """a Path-typed parameter excluded from persistence while it equals its default (dont_persist_default_value), the
    default being a Path object or a string: leaving the parameter out, and spelling the default out as the string a
    JSON / YAML config necessarily holds, describe one computation and get one location - when the library treats the
    omitted and the spelled form alike for that kind of default at all (it does for Path-object defaults; with a string
    default the parameter is persisted in both forms).  Runtime check only: the model knows string defaults."""
    name = 'path_defaults'
    model = ''

    def gen(self, rng, tier):
        return [dict(default=d, spelled=sp, where=w, drop=dr) for d in ("Path('/data/work')", "'/data/work'")
                for sp in ('/data/work', '/data/work/', '/data//work', '/data/other') for w in ('config', 'context') for dr in (True, False)]

    def run_impl(self, case):
        import sys, types
        from pathlib import Path
        from taskchain import Config
        with pl.workspace(dict(classes=[], files={})) as (d, _):
            name = 'tcv_pathdefaults'
            m = types.ModuleType(name)
            sys.modules[name] = m
            try:
                exec(compile(PATH_SRC.replace('__DEFAULT__', case['default']).replace('__DROP__', str(case.get('drop', True))), name, 'exec'), m.__dict__)
                data = {'tasks': [f'{name}.*'], 'source': 's'}
                implicit = Config(Path('data'), name='implicit', data=dict(data)).chain()
                if case['where'] == 'config':
                    explicit = Config(Path('data'), name='explicit', data=dict(data, workdir=case['spelled'], limit=10)).chain()
                else:
                    explicit = Config(Path('data'), name='explicit', data=dict(data), context={'workdir': case['spelled'], 'limit': 10}).chain()
                return dict(implicit={n: [str(t.path), t.name_for_persistence, str(t.params['workdir']) if 'workdir' in t.params else None]
                                      for n, t in implicit.tasks.items()},
                            explicit={n: [str(t.path), t.name_for_persistence, str(t.params['workdir']) if 'workdir' in t.params else None]
                                      for n, t in explicit.tasks.items()})
            finally:
                sys.modules.pop(name, None)

    def oracle(self, case, obs):
        if 'unexpected_exception' in obs:
            return f'unexpected exception {obs["unexpected_exception"]}: {obs["text"]}'
        from pathlib import Path
        same_value = Path(case['spelled']) == Path('/data/work')
        object_default = case['default'].startswith('Path')
        for n, a in obs['implicit'].items():
            b = obs['explicit'][n]
            if same_value and object_default and a[1] != b[1]:
                tag = '' if case.get('drop', True) else '[path-default-repr] '
                return (f'{tag}{case}: {n} is stored under {a[1]} when the parameter is left out and under {b[1]} when its default '
                        f'is spelled out ({case["where"]})')
            if same_value and not object_default and not case.get('drop', True) and case['spelled'] == '/data/work' and a[1] != b[1]:
                return f'{case}: {n} has the locations {a[1]} / {b[1]} for the default left out / spelled out'
            if not same_value and a[1] == b[1]:
                return f'{case}: {n} has one location for workdir {a[2]} and {b[2]}'
        return None

    def nontrivial(self, case, obs):
        return True

    def key(self, case):
        return repr(case)


IGNORED_SRC = '''
from taskchain.parameter import AutoParameterObject, IgnoreForPersistence

class Progress(IgnoreForPersistence, AutoParameterObject):
    """reports progress only: excluded from persistence wherever it stands"""
    def __init__(self, every=100):
        self.every = every

class Pipeline(AutoParameterObject):
    def __init__(self, stages, name='p'):
        self.stages = stages
        self.name = name
'''


class IgnoredValues(Suite):
    """values marked IgnoreForPersistence inside the arguments of an AutoParameterObject, at any depth of nested lists
    and mappings: adding them (any number, anywhere) does not change the parameter text, while changing anything else
    does.  Runtime check only (the model's objects carry no marker values)."""
    name = 'ignored_values_in_object_arguments'
    model = ''

    def corpus(self):
        P_ = '__progress__'
        return [dict(base=b, with_ignored=w) for b, w in [
            (['scale', 'fit'], ['scale', P_, 'fit']),
            ({'steps': ['scale', 'fit'], 'hooks': []}, {'steps': ['scale', 'fit'], 'hooks': [P_]}),
            ({'scale': {'factor': 2}, 'fit': {'iters': 5}}, {'scale': {'factor': 2, 'progress': P_}, 'fit': {'iters': 5}}),
            ([{'name': 'scale'}, {'name': 'fit', 'iters': 5}], [{'name': 'scale'}, {'name': 'fit', 'iters': 5, 'progress': P_}]),
            ([['scale', 2], ['fit', 5]], [['scale', 2], ['fit', 5, P_]]),
            ([[['deep', [1]]]], [[['deep', [1, P_], P_]], P_]),
            ({'a': [{'b': [{'c': 1}]}]}, {'a': [{'b': [{'c': 1, 'p': P_}], 'p': P_}]})]]

    def gen(self, rng, tier):
        out = []

        def shape(depth):
            r = rng.random()
            if depth == 0 or r < 0.3:
                return rng.choice([1, 'x', 2.5, None, True])
            if r < 0.65:
                return [shape(depth - 1) for _ in range(rng.choice([0, 1, 2, 3]))]
            return {f'k{i}': shape(depth - 1) for i in range(rng.choice([0, 1, 2, 3]))}

        def inject(v):
            if isinstance(v, list):
                o = [inject(x) for x in v]
                for _ in range(rng.choice([0, 0, 1, 2])):
                    o.insert(rng.randrange(len(o) + 1), '__progress__')
                return o
            if isinstance(v, dict):
                o = {k: inject(x) for k, x in v.items()}
                if rng.random() < 0.4:
                    o['progress'] = '__progress__'
                return o
            return v
        for _ in range(60 if tier == 'quick' else 1500):
            b = shape(rng.choice([1, 2, 3, 4]))
            if not isinstance(b, (list, dict)):
                b = [b]
            out.append(dict(base=b, with_ignored=inject(b)))
        return out

    def run_impl(self, case):
        import sys, types
        from taskchain.parameter import Parameter, ParameterRegistry
        name = 'tcv_ignored'
        m = types.ModuleType(name)
        sys.modules[name] = m
        try:
            exec(compile(IGNORED_SRC, name, 'exec'), m.__dict__)

            def live(v):
                if v == '__progress__':
                    return m.Progress(every=10)
                if isinstance(v, list):
                    return [live(x) for x in v]
                if isinstance(v, dict):
                    return {k: live(x) for k, x in v.items()}
                return v

            def text(stages, nm='p'):
                reg = ParameterRegistry([Parameter('pipeline')])
                reg.set_values({'pipeline': m.Pipeline(live(stages), name=nm)})
                return reg.repr
            return dict(plain=text(case['base']), ignored=text(case['with_ignored']), other=text(case['base'], 'q'))
        finally:
            sys.modules.pop(name, None)

    def oracle(self, case, obs):
        if 'unexpected_exception' in obs:
            return f'unexpected exception {obs["unexpected_exception"]}: {obs["text"]}'
        if obs['plain'] != obs['ignored']:
            return (f'values excluded from persistence change the parameter text: {obs["plain"]!r} without them, {obs["ignored"]!r} '
                    f'with them ({json.dumps(case["with_ignored"])[:200]})')
        if obs['plain'] == obs['other']:
            return f'another argument value gives the same text {obs["plain"]!r}'
        return None

    def nontrivial(self, case, obs):
        return '__progress__' in json.dumps(case['with_ignored'])

    def key(self, case):
        return repr(case)


class ValueSources(Suite):
    """one parameter value - plain, or a string with placeholders, at the top or nested - written in the config, in a dict
    context, in a context file, in a Context object, in a Context object that was itself created with global_vars, in a
    per-namespace entry of each: the tasks get the same value and the same location whichever way it arrives.
    Runtime check only."""
    name = 'value_sources'
    model = ''
    VALUES = [5, 'plain', '{DATA}/x', ['{DATA}', 1], {'k': ['a{DATA}', {'m': '{OTHER}'}]}, '{UNDEFINED}/y', [[], {}]]

    def gen(self, rng, tier):
        return [dict(value=v, ns=ns) for v in self.VALUES for ns in (None, 'n')]

    def run_impl(self, case):
        import copy
        from pathlib import Path
        from taskchain import Config
        from taskchain.config import Context
        from ..suites_chain import K, P
        classes = [dict(K(0, 'Src', params=[P('p', default=[0])]), name='src'), dict(K(1, 'Dst', meta_inputs=[{'cls': 0}]), name='dst')]
        gv = {'DATA': '/data/dir', 'OTHER': 'o'}
        v, ns = case['value'], case['ns']
        files = {'pipe.json': {'tasks': ['@M.*']}, 'pipe_v.json': {'tasks': ['@M.*'], 'p': v},
                 'ctx.json': ({'p': v} if ns is None else {'for_namespaces': {ns: {'p': v}}})}
        with pl.workspace(dict(classes=classes, files=files)) as (d, mod):
            def data(with_value):
                f = 'pipe_v.json' if with_value else 'pipe.json'
                return {'uses': [f'{f} as {ns}']} if ns else json.loads(json.dumps(dict(files[f], tasks=[f'{mod}.*'])))
            cdict = lambda: ({'p': copy.deepcopy(v)} if ns is None else {'for_namespaces': {ns: {'p': copy.deepcopy(v)}}})
            sources = {
                'config': lambda: Config(Path('data'), name='c', data=data(True), global_vars=dict(gv)),
                'dict context': lambda: Config(Path('data'), name='c', data=data(False), global_vars=dict(gv), context=cdict()),
                'context file': lambda: Config(Path('data'), name='c', data=data(False), global_vars=dict(gv), context='ctx.json'),
                'Context object': lambda: Config(Path('data'), name='c', data=data(False), global_vars=dict(gv),
                                                 context=Context(data=cdict(), name='ctx')),
                'Context object with global_vars': lambda: Config(Path('data'), name='c', data=data(False), global_vars=dict(gv),
                                                                  context=Context(data=cdict(), name='ctx', global_vars=dict(gv))),
                'list of contexts': lambda: Config(Path('data'), name='c', data=data(False), global_vars=dict(gv),
                                                   context=[{'zz': 1}, Context(data=cdict(), name='ctx', global_vars=dict(gv))]),
            }
            out = {}
            for tag, mk in sources.items():
                try:
                    ch = mk().chain()
                    out[tag] = {n: [t.name_for_persistence, pl.to_spec(t.params['p']) if 'p' in t.params else None] for n, t in ch.tasks.items()}
                except Exception as e:
                    out[tag] = {'error': f'{type(e).__name__}: {e}'[:200]}
            return out

    def oracle(self, case, obs):
        if 'unexpected_exception' in obs:
            return f'unexpected exception {obs["unexpected_exception"]}: {obs["text"]}'
        ref = obs['config']
        for tag, o in obs.items():
            if json.dumps(o, sort_keys=True) != json.dumps(ref, sort_keys=True):
                return (f'{case}: with the value written in the config the tasks are {json.dumps(ref)[:250]}; with the value from a '
                        f'{tag} they are {json.dumps(o)[:250]}')
        return None

    def nontrivial(self, case, obs):
        return '{' in json.dumps(case['value'])

    def key(self, case):
        return repr(case)


class SameNamedClasses(Suite):
    """parameter-object classes with one name in different modules (vendor_a.Model, vendor_b.Model) and different
    constructors: the text of an object does not depend on which of the classes the process has described before -
    it is the text a fresh process computes.  Runtime check only."""
    name = 'same_named_object_classes'
    model = ''

    def gen(self, rng, tier):
        return [dict(first=f, args=a) for f in ('vendor_a', 'vendor_b', None) for a in ({'size': 1, 'depth': 5}, {'size': 1, 'depth': 7})]

    def run_impl(self, case):
        import sys, types
        from .c05 import in_child
        src = {'vendor_a': 'from taskchain.parameter import AutoParameterObject\nclass Model(AutoParameterObject):\n'
                           '    def __init__(self, size):\n        self.size = size\n',
               'vendor_b': 'from taskchain.parameter import AutoParameterObject\nclass Model(AutoParameterObject):\n'
                           '    def __init__(self, size, depth=1):\n        self.size = size\n        self.depth = depth\n'}

        def text(first):
            from taskchain.parameter import Parameter, ParameterRegistry
            mods = {}
            for name, code in src.items():
                m = types.ModuleType(name)
                sys.modules[name] = m
                exec(compile(code, name, 'exec'), m.__dict__)
                m.Model.__module__ = name
                mods[name] = m
            if first == 'vendor_a':
                _ = mods['vendor_a'].Model(size=3).repr()
            elif first == 'vendor_b':
                _ = mods['vendor_b'].Model(size=3, depth=2).repr()
            reg = ParameterRegistry([Parameter('model')])
            reg.set_values({'model': mods['vendor_b'].Model(**case['args'])})
            return dict(text=reg.repr)
        return dict(here=in_child(lambda: text(case['first'])), fresh=in_child(lambda: text(None)))

    def oracle(self, case, obs):
        if 'unexpected_exception' in obs:
            return f'unexpected exception {obs["unexpected_exception"]}: {obs["text"]}'
        for k in ('here', 'fresh'):
            if 'child_error' in obs[k]:
                return f'{case}: {obs[k]["child_error"]}'
        if obs['here']['text'] != obs['fresh']['text']:
            return (f'{case}: after the process has described an object of {case["first"]}.Model the parameter text is '
                    f'{obs["here"]["text"]!r}; a fresh process computes {obs["fresh"]["text"]!r}')
        if f'depth={case["args"]["depth"]}' not in obs['here']['text']:
            return f'{case}: the argument depth is missing from {obs["here"]["text"]!r}'
        return None

    def nontrivial(self, case, obs):
        return case['first'] is not None

    def key(self, case):
        return repr(case)


class C02(Prop):
    pid = 'C02'
    suites = [Rewrites(), Registry(), ObjectArgOrder(), HashSeeds(), PathDefaults(), IgnoredValues(), ValueSources(), SameNamedClasses(), DataDirs(), Naming()]
    known_classes = {'object-argument-order': object_order_class, 'object-argument-order-registry': object_arg_order_class,
                     'hash-seed-set-attribute': hash_seed_class, 'placeholder-equals-default': placeholder_default_class,
                     'path-default-repr': path_default_class, 'quoted-placeholder-text': quoted_placeholder_class,
                     'reference-names-mount-namespace': mount_namespace_reference_class}
    trusted_base = ['the interpreter hash seed is not in the model (partial): it is exercised by fresh interpreters only']
    assumptions = ['values are JSON-like or objects rendered by their own repr']


PROP = C02()
