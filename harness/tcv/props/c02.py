"""C02 - storage location depends only on what goes into the computation."""
import copy

from ..core import Prop, Suite
from ..coqlit import cpair
from .. import pipeline as pl
from ..suites_chain import ChainBuild, cobs, CONSTRUCTION_ERRORS
from ..suites_l0 import Registry

NS_NEW = ['w', 'outer::w', 'n', 'zz']


def shuffle_dict(rng, d):
    items = list(d.items())
    rng.shuffle(items)
    return dict(items)


def shuffle_value(rng, v):
    if isinstance(v, list):
        return [shuffle_value(rng, x) for x in v]
    if isinstance(v, dict):
        if any(k.startswith('__') for k in v):
            return v
        return shuffle_dict(rng, {k: shuffle_value(rng, x) for k, x in v.items()})
    return v


def rewrite_case(rng, case):
    """A computation-preserving rewriting of a configuration; returns (new case, moves, rename)."""
    c = copy.deepcopy(case)
    moves = []
    prefix = ''
    # 1. rename / move config files
    if c['files'] and rng.random() < 0.6:
        ren = {f: f'moved/{i}_' + f.split('/')[-1] for i, f in enumerate(c['files'])}

        def fix_ref(s):
            for old, new in ren.items():
                if s == old or s.startswith(old + ' as ') or s.startswith(old + '#'):
                    return new + s[len(old):]
            return s

        def fix_doc(doc):
            if 'configs' in doc:
                return {'configs': {k: fix_doc(v) for k, v in doc['configs'].items()}}
            d = dict(doc)
            if 'uses' in d:
                d['uses'] = fix_ref(d['uses']) if isinstance(d['uses'], str) else [fix_ref(u) for u in d['uses']]
            return d
        c['files'] = {ren[f]: fix_doc(doc) for f, doc in c['files'].items()}
        if 'file' in c['base']:
            c['base'] = {'file': fix_ref(c['base']['file'])}
        else:
            c['base'] = {'name': c['base']['name'] + '_renamed', 'data': fix_doc(c['base']['data'])}

        def fix_ctx(x):
            if x is None:
                return None
            if 'file' in x:
                return {'file': fix_ref(x['file'])}
            if 'list' in x:
                return {'list': [fix_ctx(y) for y in x['list']]}
            return x
        c['context'] = fix_ctx(c.get('context'))
        moves.append('rename-files')
    # 2. permutations: parameter declarations, tasks lists, mapping keys at any depth
    if rng.random() < 0.8:
        for k in c['classes']:
            rng.shuffle(k['params'])

        def perm_doc(doc):
            if 'configs' in doc:
                return {'configs': {kk: perm_doc(v) for kk, v in doc['configs'].items()}}
            d = {kk: (shuffle_value(rng, v) if kk not in ('tasks', 'uses', 'excluded_tasks') else v) for kk, v in doc.items()}
            if isinstance(d.get('tasks'), list):
                d['tasks'] = list(d['tasks'])
                rng.shuffle(d['tasks'])
            return shuffle_dict(rng, d)
        c['files'] = {f: (perm_doc(doc) if not f.startswith('ctx/') and not f.startswith('moved/') or 'tasks' in doc or 'uses' in doc or 'configs' in doc else doc)
                      for f, doc in c['files'].items()}
        if 'data' in c['base']:
            c['base'] = {'name': c['base']['name'], 'data': perm_doc(c['base']['data'])}
        moves.append('permute')
    # 3. extra parameters that are excluded from persistence
    if rng.random() < 0.6:
        for k in c['classes']:
            if rng.random() < 0.5:
                k['params'].append(dict(name='zz_ign', cfg='zz_ign', default=[0], ignore=True, dropdef=False, dtype='any'))
            if rng.random() < 0.5:
                k['params'].append(dict(name='zz_def', cfg='zz_def', default=[[1, 'd']], ignore=False, dropdef=True, dtype='any'))
        moves.append('extra-unpersisted-params')
    # 4. different values for the placeholders
    if c.get('global_vars') and rng.random() < 0.7:
        c['global_vars'] = {k: rng.choice(['other', '/somewhere/else', 3]) for k in c['global_vars']}
        moves.append('global-vars')
    # 5. mount the whole pipeline under a namespace
    if rng.random() < 0.5:
        ns = rng.choice(NS_NEW)
        if 'data' in c['base']:
            c['files']['wrapped/base.json'] = c['base']['data']
            ref = 'wrapped/base.json'
        else:
            ref = c['base']['file']
        c['base'] = {'name': 'wrapper', 'data': {'uses': f'{ref} as {ns}'}}

        def ns_ctx(x):
            if x is None:
                return None
            if 'dict' in x:
                d = dict(x['dict'])
                if 'for_namespaces' in d:
                    d['for_namespaces'] = {f'{ns}::{k}': v for k, v in d['for_namespaces'].items()}
                return {'dict': d}
            if 'file' in x:
                f = x['file']
                d = dict(c['files'][f])
                if 'for_namespaces' in d:
                    d['for_namespaces'] = {f'{ns}::{k}': v for k, v in d['for_namespaces'].items()}
                c['files'][f] = d
                return x
            return {'list': [ns_ctx(y) for y in x['list']]}
        c['context'] = ns_ctx(c.get('context'))
        prefix = ns + '::'
        moves.append('mount:' + ns)
    return c, moves, prefix


class Rewrites(Suite):
    """(configuration, computation-preserving rewriting): corresponding tasks keep their location"""
    name = 'rewritings'
    imports = 'Value Dict Repr Param Config Key Chain World'
    shard = 8
    in_type = '((world * (str + (str * cfgdata))) * (world * (str + (str * cfgdata))))'
    out_type = '(value * value)'
    eqb = '(fun a b : value * value => value_eqb (fst a) (fst b) && value_eqb (snd a) (snd b))'
    model = ('(fun c : (world * (str + (str * cfgdata))) * (world * (str + (str * cfgdata))) => '
             '(render_build (build sha_key (fst (fst c)) (snd (fst c)) [] []), '
             'render_build (build sha_key (fst (snd c)) (snd (snd c)) [] [])))')

    def gen(self, rng, tier):
        from ..gen_pipeline import gen_case
        out = []
        for _ in range(40 if tier == 'quick' else 1200):
            c = gen_case(rng)
            c2, moves, prefix = rewrite_case(rng, c)
            out.append(dict(orig=c, rewr=c2, moves=moves, prefix=prefix))
        return out

    def build(self, case):
        with pl.workspace(case) as (d, mod):
            try:
                return pl.observe_chain(pl.build_config(case, mod).chain(), with_paths=True)
            except CONSTRUCTION_ERRORS as e:
                return dict(error=type(e).__name__, text=str(e)[:200])

    def run_impl(self, case):
        return dict(a=self.build(case['orig']), b=self.build(case['rewr']))

    def encode(self, case, obs):
        i = cpair(cpair(pl.cworld(case['orig'], 'M'), pl.cbase(case['orig']['base'], 'M')),
                  cpair(pl.cworld(case['rewr'], 'M'), pl.cbase(case['rewr']['base'], 'M')))
        return i, cpair(cobs(obs.get('a', {})), cobs(obs.get('b', {})))

    def oracle(self, case, obs):
        if 'unexpected_exception' in obs:
            return f'unexpected exception {obs["unexpected_exception"]}: {obs["text"]}'
        a, b = obs['a'], obs['b']
        if 'error' in a or 'error' in b:
            return None
        for n, t in a['tasks'].items():
            n2 = case['prefix'] + n
            if n2 not in b['tasks']:
                return f'after {case["moves"]} task {n} has no counterpart {n2}'
            if t['path'] != b['tasks'][n2]['path']:
                return (f'after {case["moves"]} the location of {n} moved from {t["path"]} to {b["tasks"][n2]["path"]}')
        return None

    def nontrivial(self, case, obs):
        return 'tasks' in obs.get('a', {}) and 'tasks' in obs.get('b', {}) and len(obs['a']['tasks']) >= 2 and bool(case['moves'])

    def key(self, case):
        return repr(case)

    def distribution(self, cases, obs):
        d = dict(moves={}, both_built=0)
        for c, o in zip(cases, obs):
            for m in c['moves']:
                m = m.split(':')[0]
                d['moves'][m] = d['moves'].get(m, 0) + 1
            d['both_built'] += 'tasks' in o.get('a', {}) and 'tasks' in o.get('b', {})
        return d


class C02(Prop):
    pid = 'C02'
    suites = [Rewrites(), Registry()]
    trusted_base = ['interpreter hash seed is not in the model (partial): keys of set-valued object attributes are '
                    'outside the value grammar']
    assumptions = ['values are JSON-like or objects rendered by their own repr; AutoParameterObject arguments that '
                   'are mappings are excluded (known finding K2)']


PROP = C02()
