"""C12 - the storage scheme is stable."""
from ..core import Prop
from ..suites_l0 import Registry


class C12(Prop):
    pid = 'C12'
    suites = [Registry()]


PROP = C12()
