"""C12 - the storage scheme is stable."""
import hashlib

from ..core import Prop, Suite
from ..coqlit import clist, copt, cpair, cstr
from ..suites_l0 import Registry
from ..suites_chain import ChainBuild


from .c13 import DataDirs      # the data directory is the first component of every location, whichever chain is built first

class Sha(Suite):
    """the Gallina SHA-256 that instantiates the hash in the goldens, against hashlib"""
    name = 'sha256'
    imports = 'Sha256'
    shard = 8
    in_type = 'str'
    out_type = 'str'
    eq_dec = 'str_eq_dec'
    model = 'sha256_hex'

    def corpus(self):
        return [dict(hex=b''.hex()), dict(hex=b'None$$$'.hex()), dict(hex=(b'a' * 55).hex()), dict(hex=(b'a' * 56).hex()),
                dict(hex=(b'a' * 64).hex()), dict(hex='lr=0.001###x=\'é\'$$$a::b=0123'.encode().hex())]

    def gen(self, rng, tier):
        out = []
        for _ in range(40 if tier == 'quick' else 400):
            n = rng.choice([0, 1, 31, 32, 54, 55, 56, 57, 63, 64, 65, 119, 120, rng.randrange(0, 400)])
            out.append(dict(hex=bytes(rng.randrange(256) for _ in range(n)).hex()))
        return out

    def run_impl(self, case):
        return dict(digest=hashlib.sha256(bytes.fromhex(case['hex'])).hexdigest())

    def encode(self, case, obs):
        return cstr(bytes.fromhex(case['hex'])), cstr(obs['digest'])

    def nontrivial(self, case, obs):
        return len(case['hex']) > 2 * 55


class Keys(ChainBuild):
    """keys and locations of whole chains against the frozen re-implementation of the 1.4.0 scheme"""
    aspects = ('keys',)


class NameModeLayout(Suite):
    """persistence by config name (parameter_mode=False): where result, run record and log of a task are stored, for
    config names with and without dots and for data classes with and without a file extension - against the layout
    of the pinned release written out here (result <task dir>/<name>[.ext]; side files named after the result path
    without its last suffix). Runtime check: the model's locations are those of parameter mode."""
    name = 'name_mode_layout'
    model = ''

    def gen(self, rng, tier):
        return ([dict(cfg=c, data=d) for c in ('exp', 'exp.v2', 'a.b.c', 'run_1') for d in ('json', 'dir', 'memory')] +
                # one part of a multi-part config file: the name is <file stem>#<part>
                [dict(cfg='exp', part=pt, data=d) for pt in ('small', 'large') for d in ('json', 'dir', 'memory')])

    def run_impl(self, case):
        from pathlib import Path
        from .. import pipeline as pl
        from ..suites_chain import K
        classes = [dict(K(0, 'Leaf', group='g', data=case['data']), name='leaf')]
        if case.get('part'):
            full = dict(classes=classes, files={f'{case["cfg"]}.json': {'configs': {'small': {'tasks': ['@M.*'], 'main_part': True},
                                                                                  'large': {'tasks': ['@M.*']}}}},
                        base={'file': f'{case["cfg"]}.json#{case["part"]}'}, context=None)
        else:
            full = dict(classes=classes, files={f'{case["cfg"]}.json': {'tasks': ['@M.*']}}, base={'file': f'{case["cfg"]}.json'}, context=None)
        with pl.workspace(full) as (d, mod):
            ch = pl.build_config(full, mod).chain(parameter_mode=False)
            t = ch['leaf']
            t.value
            files = sorted(str(p.relative_to('data')) for p in Path('data').rglob('*') if p.is_file())
            top = sorted(str(p.relative_to('data')) for p in Path('data/g/leaf').iterdir())
            has_log, has_info = t.log is not None, t.run_info is not None
            return dict(files=files, top=top, has_log=has_log, has_info=has_info)

    def oracle(self, case, obs):
        if 'unexpected_exception' in obs:
            return f'unexpected exception {obs["unexpected_exception"]}: {obs["text"]}'
        from pathlib import PurePosixPath
        ext = {'json': '.json', 'dir': '', 'memory': ''}[case['data']]
        result = PurePosixPath('g/leaf') / (case['cfg'] + (f'#{case["part"]}' if case.get('part') else '') + ext)
        want = {str(result.parent / f'{result.stem}.run_info.yaml'), str(result.parent / f'{result.stem}.log')}
        if case['data'] != 'memory':
            want.add(str(result))
        got = set(obs['top'])
        if got != want:
            return f'{case}: the task directory holds {sorted(got)}, the layout of the pinned release is {sorted(want)}'
        if not (obs['has_log'] and obs['has_info']):
            return f'{case}: run record / log written by the run are not found again (log {obs["has_log"]}, record {obs["has_info"]})'
        return None

    def nontrivial(self, case, obs):
        return '.' in case['cfg']

    def key(self, case):
        return repr(case)


class Naming(Suite):
    """MetaTask.slugname / fullname and the module-derived groups of ModuleTask / DoubleModuleTask against the model
    (Model/Naming.v): classes are created with type() under generated ASCII names, groups, explicit names and modules"""
    name = 'task_naming'
    imports = 'Naming'
    shard = 400
    in_type = '(str * option str * str * option str * (option str * str))'
    out_type = 'list str'
    prelude = '''
Fixpoint strs_eqb (a b : list str) : bool :=
  match a, b with [], [] => true | x :: a', y :: b' => str_eqb x y && strs_eqb a' b' | _, _ => false end.
Definition naming_model (c : str * option str * str * option str * (option str * str)) : list str :=
  let '(group, name, cname, ns, (mgroup, module)) := c in
  [ slug_name group name cname; full_name ns (slug_name group name cname);
    slug_name (module_group module) name cname; slug_name (double_module_group mgroup module) name cname ].
'''
    eqb = 'strs_eqb'
    model = 'naming_model'
    CNAMES = ['PrepareData', 'PrepareTask', 'Task', 'ATask', 'HTTPServer', 'My_Task', 'K01', 'prepare', 'Prepare_task', 'XTaskY',
              'TaskTask', 'A', 'Ab', 'aB', 'X1Y2', 'Features_', '_Hidden', 'Clean_Task', 'cleanTASK', 'T_task']
    NAMES = [None, None, 'x', 'prepare_task', '_task', 'task', 'Mixed_Case', 'a_task_', 'UPPER', 'with space', 'g:sub', '']
    GROUPS = ['', '', 'g', 'g:h', 'Group', 'a_task']
    MODULES = ['features', 'pkg.features', 'pkg.sub.features', 'a.b.c.d', 'Tasks.Mod']

    def corpus(self):
        return [dict(group=g, name=n, cname=c, ns=ns, mgroup=mg, module=m)
                for g, n, c, ns, mg, m in [('', None, 'PrepareTask', None, None, 'pkg.features'),
                                           ('g', 'prepare_task', 'X', 'train', None, 'features'),
                                           ('g:h', None, 'HTTPServer', 'a::b', 'own', 'pkg.sub.features'),
                                           ('', '', 'Named', None, None, 'pkg.features'),
                                           # grouping switched off: an explicit empty group for a class that would get the module's
                                           ('', None, 'Ungrouped', None, '', 'pkg.features'), ('', 'x', 'Ungrouped', 'n', '', 'pkg.sub.features')]]

    def gen(self, rng, tier):
        import string
        out = []
        for _ in range(300 if tier == 'quick' else 6000):
            if rng.random() < 0.5:
                cname = rng.choice(self.CNAMES)
            else:
                cname = rng.choice(string.ascii_letters + '_') + ''.join(
                    rng.choice(string.ascii_letters + string.digits + '_') for _ in range(rng.randrange(0, 9)))
                if rng.random() < 0.3:
                    cname += rng.choice(['Task', '_task', '_Task', 'task', 'TASK'])
            out.append(dict(group=rng.choice(self.GROUPS), name=rng.choice(self.NAMES), cname=cname,
                            ns=rng.choice([None, None, 'n', 'outer::n']), mgroup=rng.choice([None, None, 'own', 'a:b', '']),
                            module=rng.choice(self.MODULES)))
        return out

    def run_impl(self, case):
        import sys, types
        from taskchain.task import Task, ModuleTask, DoubleModuleTask
        mod = 'tcvnaming.' + case['module']
        made = []
        parts = mod.split('.')
        for i in range(1, len(parts) + 1):
            n = '.'.join(parts[:i])
            if n not in sys.modules:
                sys.modules[n] = types.ModuleType(n)
                made.append(n)
        try:
            def make(base, group):
                meta = {}
                if group is not None:
                    meta['task_group'] = group
                if case['name'] is not None:
                    meta['name'] = case['name']
                return type(base)(case['cname'], (base,), {'Meta': type('Meta', (), meta), '__module__': mod})
            plain = make(Task, case['group'] if case['group'] else None)
            cfg = types.SimpleNamespace(namespace=case['ns'])
            # task classes derived from a ModuleTask / DoubleModuleTask of another module: the group is that of the module the
            # derived class lives in, whether or not the name of the parent class was asked for before
            other = 'tcvnaming.elsewhere.child_mod'
            for i in range(1, 4):
                n = '.'.join(other.split('.')[:i])
                if n not in sys.modules:
                    sys.modules[n] = types.ModuleType(n)
                    made.append(n)
            derived = []
            for base in (ModuleTask, DoubleModuleTask):
                for ask_parent_first in (True, False):
                    parent = make(base, None)
                    if ask_parent_first:
                        _ = parent.slugname
                    child = type(parent)('Child', (parent,), {'Meta': type('Meta', (), {}), '__module__': other})
                    derived.append(child.slugname)
            return dict(names=[plain.slugname, plain.fullname(cfg), make(ModuleTask, None).slugname,
                               make(DoubleModuleTask, case['mgroup']).slugname],
                        module_task_with_group=make(ModuleTask, case['mgroup'] or 'own').slugname, derived=derived)
        finally:
            for n in made:
                sys.modules.pop(n, None)

    def encode(self, case, obs):
        i = cpair(cstr(case['group']), copt(case['name'], cstr), cstr(case['cname']), copt(case['ns'], cstr),
                  cpair(copt(case['mgroup'], cstr), cstr('tcvnaming.' + case['module'])))
        return i, clist([cstr(n) for n in obs.get('names', ['<exception>'])])

    def oracle(self, case, obs):
        """the rule of the pinned release, written out independently of the model"""
        if 'unexpected_exception' in obs:
            return f'unexpected exception {obs["unexpected_exception"]}: {obs["text"]}'
        import re
        if case['name'] is not None:
            base = case['name']
        else:
            base = re.sub(r'(?<!^)(?=[A-Z])', '_', case['cname']).lower()
            base = base[:-5] if base.endswith('_task') else base
        mparts = ('tcvnaming.' + case['module']).split('.')
        groups = [case['group'], None, mparts[-1], case['mgroup'] if case['mgroup'] is not None else ':'.join(mparts[-2:])]
        want = []
        for k, g in enumerate(groups):
            if k == 1:
                want.append((case['ns'] + '::' if case['ns'] is not None else '') + want[0])
            else:
                want.append(f'{g}:{base}' if g else base)
        if obs['names'] != want:
            return f'{case}: the names are {obs["names"]}; the naming rule of release 1.4.0 gives {want}'
        if obs.get('derived') != ['child_mod:child', 'child_mod:child', 'elsewhere:child_mod:child', 'elsewhere:child_mod:child']:
            return (f'{case}: classes named Child derived from a ModuleTask / DoubleModuleTask and defined in module elsewhere.child_mod '
                    f'(parent named first, child named first) are named {obs.get("derived")}; their groups come from their own module')
        if obs.get('module_task_with_group') != want[2]:
            return (f'{case}: a ModuleTask whose Meta sets task_group is named {obs.get("module_task_with_group")}; release 1.4.0 '
                    f'takes the group of a ModuleTask from its module: {want[2]}')
        return None

    def nontrivial(self, case, obs):
        return case['name'] is None or case['name'].endswith('_task')

    def key(self, case):
        return repr(case)


BRACE_SRC = """
from taskchain import Task, Parameter

class Abc(Task):
    class Meta:
        parameters = [Parameter('p')]
    def run(self, p) -> dict:
        return {'p': str(p)}
"""


class BraceTexts(Suite):
    """strings with braces in a configuration built with and without global_vars - placeholders that are defined, braces
    that name nothing (regular-expression quantifiers, format templates), with and without characters that repr() escapes
    or re-quotes: the text of the parameter in the key is the one of the release - a string that matched the placeholder
    pattern is rendered by repr() of its SOURCE text, any other string between single quotes as it is.  Runtime check
    against that rule written out here."""
    name = 'brace_texts'
    model = ''
    # mappings whose keys are numbers (a YAML mapping {5: .., 10: .., 100: ..}): the items are written in the order of the
    # keys themselves, not of their texts
    MAPPINGS = [{5: 0.1, 10: 0.25, 100: 0.5}, {100: 'c', 5: 'a', 10: 'b'}, {-1: 1, -10: 2, 3: 3}, {1.5: 'x', 10.0: 'y', 2: 'z'},
                {True: 1, 0: 2}, {10: {2: 'a', 11: 'b'}}]
    STRINGS = ['\\d{4}', "it's {}", 'part_{}.json', '{X}/data', "{X}'s", '\\w{2,3}-{X}', 'plain', "it's", 'a\\b', '{', '}{', '{}', 'x{X}{Q}\n']

    def gen(self, rng, tier):
        return [dict(value=v, gv=g, nest=n) for v in self.STRINGS for g in (None, {}, {'X': 'v'}, {'Z': 1}) for n in (False, True)] + \
               [dict(mapping=i, gv=None, nest=n) for i in range(len(self.MAPPINGS)) for n in (False, True)]

    def run_impl(self, case):
        import sys, types
        from pathlib import Path
        from taskchain import Config
        from .. import pipeline as pl
        with pl.workspace(dict(classes=[], files={})) as (d, _):
            name = 'tcv_braces'
            m = types.ModuleType(name)
            sys.modules[name] = m
            try:
                exec(compile(BRACE_SRC, name, 'exec'), m.__dict__)
                if 'mapping' in case:
                    case = dict(case, value=self.MAPPINGS[case['mapping']])
                value = [case['value'], {'k': case['value']}] if case['nest'] else case['value']
                cfg = Config(Path('data'), name='c', data={'tasks': [f'{name}.Abc'], 'p': value}, global_vars=case['gv'])
                t = cfg.chain()['abc']
                return dict(text=t.params.repr, key=t.name_for_persistence)
            finally:
                sys.modules.pop(name, None)

    def oracle(self, case, obs):
        import re, hashlib
        if 'unexpected_exception' in obs:
            return f'unexpected exception {obs["unexpected_exception"]}: {obs["text"]}'
        if 'mapping' in case:
            def text(v):
                if isinstance(v, dict):
                    return '{' + ', '.join(f'{text(k)}: {text(x)}' for k, x in sorted(v.items())) + '}'
                return f"'{v}'" if isinstance(v, str) else repr(v)
            one = text(self.MAPPINGS[case['mapping']])
            want = f"p=[{one}, {{'k': {one}}}]" if case['nest'] else f'p={one}'
            if obs['text'] != want:
                return f'{case}: the key text of the parameter is {obs["text"]!r}; by the scheme of the release it is {want!r}'
            return None
        s = case['value']
        one = repr(s) if case['gv'] is not None and re.search(r'{(.*?)}', s) else f"'{s}'"
        want = f"p=[{one}, {{'k': {one}}}]" if case['nest'] else f'p={one}'
        if obs['text'] != want:
            return f'{case}: the key text of the parameter is {obs["text"]!r}; by the scheme of the release it is {want!r}'
        if obs['key'] != hashlib.sha256(f'{want}$$$'.encode()).hexdigest()[:32]:
            return f'{case}: key {obs["key"]} is not the hash of {want!r}'
        return None

    def nontrivial(self, case, obs):
        return 'mapping' in case or '{' in case['value']

    def key(self, case):
        return repr(case)


TUPLE_GOLDENS = [
    ("dict()", "Net(dropout=0.5, layers=(64, 32), shape=None)"),
    ("dict(layers=(8,))", "Net(dropout=0.5, layers=(8,), shape=None)"),
    ("dict(layers=())", "Net(dropout=0.5, layers=(), shape=None)"),
    ("dict(shape=[(1, 2), (3,)])", "Net(dropout=0.5, layers=(64, 32), shape=[(1, 2), (3,)])"),
    ("dict(shape={'in': (3, 224), 'out': ((1,),)})", "Net(dropout=0.5, layers=(64, 32), shape={'in': (3, 224), 'out': ((1,),)})"),
    ("dict(layers=[64, 32])", "Net(dropout=0.5, layers=[64, 32], shape=None)"),
    ("dict(layers=(64, 32), shape=('a', None))", "Net(dropout=0.5, layers=(64, 32), shape=('a', None))"),
]


class TupleArguments(Suite):
    """parameter objects with tuple-valued arguments (a tuple default, tuples inside lists and mappings): the text of the
    object - and with it the key of the task and of its dependants - is the text release 1.4.0 gives (recorded), a tuple
    is written as a tuple; the key of a chain that uses the object is the SHA-256 of the recorded text.  Runtime check
    against recorded texts."""
    name = 'tuple_arguments'
    model = ''

    def gen(self, rng, tier):
        return [dict(kwargs=k, golden=g) for k, g in TUPLE_GOLDENS]

    def run_impl(self, case):
        import hashlib, sys, types
        from taskchain import Config
        name = 'tcv_tuples'
        m = types.ModuleType(name)
        sys.modules[name] = m
        try:
            exec(compile("""
from taskchain import Task, Parameter
from taskchain.parameter import AutoParameterObject
class Net(AutoParameterObject):
    def __init__(self, layers=(64, 32), dropout=0.5, shape=None, verbose=False):
        self.layers, self.dropout, self.shape, self.verbose = layers, dropout, shape, verbose
class Train(Task):
    class Meta:
        parameters = [Parameter('net')]
    def run(self, net) -> int:
        return 1
""", name, 'exec'), m.__dict__)
            m.Train.__module__ = m.Net.__module__ = name
            obj = m.Net(**eval(case['kwargs']))
            chain = Config('/nonexistent-base', name='c', data={'tasks': [m.Train], 'net': obj}).chain()
            want = hashlib.sha256(f"net={case['golden']}$$$".encode()).hexdigest()[:32]
            return dict(text=obj.repr(), key=chain['train'].name_for_persistence, want_key=want)
        finally:
            sys.modules.pop(name, None)

    def oracle(self, case, obs):
        if 'unexpected_exception' in obs:
            return f'unexpected exception {obs["unexpected_exception"]}: {obs["text"]}'
        if obs['text'] != case['golden']:
            return f'Net(**{case["kwargs"]}) is written {obs["text"]!r}; release 1.4.0 writes {case["golden"]!r}'
        if obs['key'] != obs['want_key']:
            return f'the task that takes Net(**{case["kwargs"]}) has the key {obs["key"]}; the recorded text gives {obs["want_key"]}'
        return None

    def nontrivial(self, case, obs):
        return True

    def key(self, case):
        return case['kwargs']


class C12(Prop):
    pid = 'C12'
    suites = [Registry(), Keys(), Sha(), NameModeLayout(), Naming(), BraceTexts(), DataDirs(), TupleArguments()]
    trusted_base = ['SHA-256: the Gallina implementation is checked against FIPS vectors (kernel) and hashlib (correspondence)',
                    'the frozen re-implementation harness/tcv/oracle_frozen.py and the golden literals were produced at the pinned commit']
    assumptions = ['parameter mode; name mode (key = config name) is exercised by the C20 harness']


PROP = C12()
