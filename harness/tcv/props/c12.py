"""C12 - the storage scheme is stable."""
import hashlib

from ..core import Prop, Suite
from ..coqlit import cstr
from ..suites_l0 import Registry
from ..suites_chain import ChainBuild


class Sha(Suite):
    """the Gallina SHA-256 that instantiates the hash in the goldens, against hashlib"""
    name = 'sha256'
    imports = 'Sha256'
    shard = 8
    in_type = 'str'
    out_type = 'str'
    eq_dec = 'str_eq_dec'
    model = 'sha256_hex'

    def corpus(self):
        return [dict(hex=b''.hex()), dict(hex=b'None$$$'.hex()), dict(hex=(b'a' * 55).hex()), dict(hex=(b'a' * 56).hex()),
                dict(hex=(b'a' * 64).hex()), dict(hex='lr=0.001###x=\'é\'$$$a::b=0123'.encode().hex())]

    def gen(self, rng, tier):
        out = []
        for _ in range(40 if tier == 'quick' else 400):
            n = rng.choice([0, 1, 31, 32, 54, 55, 56, 57, 63, 64, 65, 119, 120, rng.randrange(0, 400)])
            out.append(dict(hex=bytes(rng.randrange(256) for _ in range(n)).hex()))
        return out

    def run_impl(self, case):
        return dict(digest=hashlib.sha256(bytes.fromhex(case['hex'])).hexdigest())

    def encode(self, case, obs):
        return cstr(bytes.fromhex(case['hex'])), cstr(obs['digest'])

    def nontrivial(self, case, obs):
        return len(case['hex']) > 2 * 55


class Keys(ChainBuild):
    """keys and locations of whole chains against the frozen re-implementation of the 1.4.0 scheme"""
    aspects = ('keys',)


class C12(Prop):
    pid = 'C12'
    suites = [Registry(), Keys(), Sha()]
    trusted_base = ['SHA-256: the Gallina implementation is checked against FIPS vectors (kernel) and hashlib (correspondence)',
                    'the frozen re-implementation harness/tcv/oracle_frozen.py and the golden literals were produced at the pinned commit']
    assumptions = ['parameter mode; name mode (key = config name) is exercised by the C20 harness']


PROP = C12()
