"""C12 - the storage scheme is stable."""
import hashlib

from ..core import Prop, Suite
from ..coqlit import cstr
from ..suites_l0 import Registry
from ..suites_chain import ChainBuild


class Sha(Suite):
    """the Gallina SHA-256 that instantiates the hash in the goldens, against hashlib"""
    name = 'sha256'
    imports = 'Sha256'
    shard = 8
    in_type = 'str'
    out_type = 'str'
    eq_dec = 'str_eq_dec'
    model = 'sha256_hex'

    def corpus(self):
        return [dict(hex=b''.hex()), dict(hex=b'None$$$'.hex()), dict(hex=(b'a' * 55).hex()), dict(hex=(b'a' * 56).hex()),
                dict(hex=(b'a' * 64).hex()), dict(hex='lr=0.001###x=\'é\'$$$a::b=0123'.encode().hex())]

    def gen(self, rng, tier):
        out = []
        for _ in range(40 if tier == 'quick' else 400):
            n = rng.choice([0, 1, 31, 32, 54, 55, 56, 57, 63, 64, 65, 119, 120, rng.randrange(0, 400)])
            out.append(dict(hex=bytes(rng.randrange(256) for _ in range(n)).hex()))
        return out

    def run_impl(self, case):
        return dict(digest=hashlib.sha256(bytes.fromhex(case['hex'])).hexdigest())

    def encode(self, case, obs):
        return cstr(bytes.fromhex(case['hex'])), cstr(obs['digest'])

    def nontrivial(self, case, obs):
        return len(case['hex']) > 2 * 55


class Keys(ChainBuild):
    """keys and locations of whole chains against the frozen re-implementation of the 1.4.0 scheme"""
    aspects = ('keys',)


class NameModeLayout(Suite):
    """persistence by config name (parameter_mode=False): where result, run record and log of a task are stored, for
    config names with and without dots and for data classes with and without a file extension - against the layout
    of the pinned release written out here (result <task dir>/<name>[.ext]; side files named after the result path
    without its last suffix). Runtime check: the model's locations are those of parameter mode."""
    name = 'name_mode_layout'
    model = ''

    def gen(self, rng, tier):
        return [dict(cfg=c, data=d) for c in ('exp', 'exp.v2', 'a.b.c', 'run_1') for d in ('json', 'dir', 'memory')]

    def run_impl(self, case):
        from pathlib import Path
        from .. import pipeline as pl
        from ..suites_chain import K
        classes = [dict(K(0, 'Leaf', group='g', data=case['data']), name='leaf')]
        full = dict(classes=classes, files={f'{case["cfg"]}.json': {'tasks': ['@M.*']}}, base={'file': f'{case["cfg"]}.json'}, context=None)
        with pl.workspace(full) as (d, mod):
            ch = pl.build_config(full, mod).chain(parameter_mode=False)
            t = ch['leaf']
            t.value
            files = sorted(str(p.relative_to('data')) for p in Path('data').rglob('*') if p.is_file())
            top = sorted(str(p.relative_to('data')) for p in Path('data/g/leaf').iterdir())
            has_log, has_info = t.log is not None, t.run_info is not None
            return dict(files=files, top=top, has_log=has_log, has_info=has_info)

    def oracle(self, case, obs):
        if 'unexpected_exception' in obs:
            return f'unexpected exception {obs["unexpected_exception"]}: {obs["text"]}'
        from pathlib import PurePosixPath
        ext = {'json': '.json', 'dir': '', 'memory': ''}[case['data']]
        result = PurePosixPath('g/leaf') / (case['cfg'] + ext)
        want = {str(result.parent / f'{result.stem}.run_info.yaml'), str(result.parent / f'{result.stem}.log')}
        if case['data'] != 'memory':
            want.add(str(result))
        got = set(obs['top'])
        if got != want:
            return f'{case}: the task directory holds {sorted(got)}, the layout of the pinned release is {sorted(want)}'
        if not (obs['has_log'] and obs['has_info']):
            return f'{case}: run record / log written by the run are not found again (log {obs["has_log"]}, record {obs["has_info"]})'
        return None

    def nontrivial(self, case, obs):
        return '.' in case['cfg']

    def key(self, case):
        return repr(case)


class C12(Prop):
    pid = 'C12'
    suites = [Registry(), Keys(), Sha(), NameModeLayout()]
    trusted_base = ['SHA-256: the Gallina implementation is checked against FIPS vectors (kernel) and hashlib (correspondence)',
                    'the frozen re-implementation harness/tcv/oracle_frozen.py and the golden literals were produced at the pinned commit']
    assumptions = ['parameter mode; name mode (key = config name) is exercised by the C20 harness']


PROP = C12()
