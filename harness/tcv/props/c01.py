"""C01 - a chain never returns a stale or foreign result."""
from ..core import Prop, Suite
from .c09 import ContextReuse
from ..suites_hist import Histories
from .c04 import DataKinds


class StoredValues(DataKinds):
    """every persisting data class: what a later chain / a later process loads is the value that was computed
    (also for results of many parts: more than ten arrays, hundreds of generated items)"""
    name = 'stored_values_of_every_data_class'


class NameModeParts(Suite):
    """persistence by config name (parameter_mode=False): configurations of one task that differ in a parameter value and
    come from the parts of one multi-config file, from files with the same stem in different directories, or from one
    file under two contexts - mounted under two namespaces of one chain, and requested again after a restart: every task
    yields the value of its own configuration.  Runtime check only (the history model is parameter mode)."""
    name = 'name_mode_configurations'
    model = ''

    def gen(self, rng, tier):
        return [dict(layout=l, xs=xs, order=o) for l in ('parts', 'files') for xs in ([1, 2], [2, 1], [5, 5]) for o in (0, 1)]

    def run_impl(self, case):
        import json
        from pathlib import Path
        from taskchain import Config
        from .. import pipeline as pl
        from ..suites_chain import K, P
        from .c05 import in_child
        classes = [dict(K(0, 'Src', params=[P('x')]), name='src'), dict(K(1, 'Dst', meta_inputs=[{'cls': 0}]), name='dst')]
        a, b = case['xs']
        if case['layout'] == 'parts':
            files = {'multi.json': {'configs': {'small': {'tasks': ['@M.*'], 'x': a, 'main_part': True}, 'large': {'tasks': ['@M.*'], 'x': b}}},
                     'main.json': {'uses': ['multi.json#small as small', 'multi.json#large as large']}}
        else:
            files = {'one/small.json': {'tasks': ['@M.*'], 'x': a}, 'two/large.json': {'tasks': ['@M.*'], 'x': b},
                     'main.json': {'uses': ['one/small.json as small', 'two/large.json as large']}}
        if case['order']:
            files['main.json']['uses'] = files['main.json']['uses'][::-1]
        with pl.workspace(dict(classes=classes, files=files)) as (d, mod):
            def see():
                ch = Config(Path('data'), 'main.json').chain(parameter_mode=False)
                return {n: dict(value=pl.to_spec(t.value), path=str(t.data_path)) for n, t in ch.tasks.items()}
            first = see()
            again = in_child(see)
            return dict(first=first, again=again)

    def oracle(self, case, obs):
        import json
        if 'unexpected_exception' in obs:
            return f'unexpected exception {obs["unexpected_exception"]}: {obs["text"]}'
        if 'child_error' in obs.get('again', {}):
            return f'{case}: the second process failed: {obs["again"]["child_error"]}'
        want = {'small': repr(case['xs'][0]), 'large': repr(case['xs'][1])}
        for tag in ('first', 'again'):
            o = obs[tag]
            for ns, x in want.items():
                v = o[f'{ns}::src']['value']
                if v.get('p', {}).get('x') != x:
                    return f'{case}: {ns}::src ({tag} process) yields {v}; its configuration has x={x}'
                up = o[f'{ns}::dst']['value'].get('i', [[None, {}]])[0][1]
                if up.get('p', {}).get('x') != x:
                    return f'{case}: {ns}::dst ({tag} process) was computed from {up}; its configuration has x={x}'
        return None

    def nontrivial(self, case, obs):
        return case['xs'][0] != case['xs'][1]

    def key(self, case):
        return repr(case)


class C01(Prop):
    pid = 'C01'
    suites = [Histories(), StoredValues(), ContextReuse(), NameModeParts()]
    trusted_base = ['the reference evaluator (harness/tcv/gen_pipeline.ref_value) and the frozen scheme renderer used by the oracle']
    assumptions = ['task computations are deterministic functions of their persisted parameters and inputs',
                   'location_determines_denotation (discharged by C03 under the no-collision hypothesis on SHA-256) and '
                   'well-founded inputs (C08) are hypotheses of the C01 theorems',
                   'parameter mode; JSON and in-memory data classes in the history model']


PROP = C01()
