"""C01 - a chain never returns a stale or foreign result."""
from ..core import Prop
from ..suites_hist import Histories


class C01(Prop):
    pid = 'C01'
    suites = [Histories()]


PROP = C01()
