"""C01 - a chain never returns a stale or foreign result."""
from ..core import Prop, Suite
from .c09 import ContextReuse
from ..suites_hist import Histories
from .c04 import DataKinds


class StoredValues(DataKinds):
    """every persisting data class: what a later chain / a later process loads is the value that was computed
    (also for results of many parts: more than ten arrays, hundreds of generated items)"""
    name = 'stored_values_of_every_data_class'


class NameModeParts(Suite):
    """persistence by config name (parameter_mode=False): configurations of one task that differ in a parameter value and
    come from the parts of one multi-config file, from files with the same stem in different directories, or from one
    file under two contexts - mounted under two namespaces of one chain, and requested again after a restart: every task
    yields the value of its own configuration.  Runtime check only (the history model is parameter mode)."""
    name = 'name_mode_configurations'
    model = ''

    def gen(self, rng, tier):
        return [dict(layout=l, xs=xs, order=o) for l in ('parts', 'files') for xs in ([1, 2], [2, 1], [5, 5]) for o in (0, 1)]

    def run_impl(self, case):
        import json
        from pathlib import Path
        from taskchain import Config
        from .. import pipeline as pl
        from ..suites_chain import K, P
        from .c05 import in_child
        classes = [dict(K(0, 'Src', params=[P('x')]), name='src'), dict(K(1, 'Dst', meta_inputs=[{'cls': 0}]), name='dst')]
        a, b = case['xs']
        if case['layout'] == 'parts':
            files = {'multi.json': {'configs': {'small': {'tasks': ['@M.*'], 'x': a, 'main_part': True}, 'large': {'tasks': ['@M.*'], 'x': b}}},
                     'main.json': {'uses': ['multi.json#small as small', 'multi.json#large as large']}}
        else:
            files = {'one/small.json': {'tasks': ['@M.*'], 'x': a}, 'two/large.json': {'tasks': ['@M.*'], 'x': b},
                     'main.json': {'uses': ['one/small.json as small', 'two/large.json as large']}}
        if case['order']:
            files['main.json']['uses'] = files['main.json']['uses'][::-1]
        with pl.workspace(dict(classes=classes, files=files)) as (d, mod):
            def see():
                ch = Config(Path('data'), 'main.json').chain(parameter_mode=False)
                return {n: dict(value=pl.to_spec(t.value), path=str(t.data_path)) for n, t in ch.tasks.items()}
            first = see()
            again = in_child(see)
            return dict(first=first, again=again)

    def oracle(self, case, obs):
        import json
        if 'unexpected_exception' in obs:
            return f'unexpected exception {obs["unexpected_exception"]}: {obs["text"]}'
        if 'child_error' in obs.get('again', {}):
            return f'{case}: the second process failed: {obs["again"]["child_error"]}'
        want = {'small': repr(case['xs'][0]), 'large': repr(case['xs'][1])}
        for tag in ('first', 'again'):
            o = obs[tag]
            for ns, x in want.items():
                v = o[f'{ns}::src']['value']
                if v.get('p', {}).get('x') != x:
                    return f'{case}: {ns}::src ({tag} process) yields {v}; its configuration has x={x}'
                up = o[f'{ns}::dst']['value'].get('i', [[None, {}]])[0][1]
                if up.get('p', {}).get('x') != x:
                    return f'{case}: {ns}::dst ({tag} process) was computed from {up}; its configuration has x={x}'
        return None

    def nontrivial(self, case, obs):
        return case['xs'][0] != case['xs'][1]

    def key(self, case):
        return repr(case)


OBJ_SRC = """
import json
from taskchain import Task, Parameter

RUNS = []

def state(o):
    return json.loads(json.dumps({k: v for k, v in sorted(vars(o).items()) if not k.startswith('_taskchain')}, default=lambda x: sorted(x) if isinstance(x, set) else str(x)))

class Use(Task):
    class Meta:
        parameters = [Parameter('obj'), Parameter('objs', default=None)]
    def run(self, obj, objs) -> dict:
        RUNS.append('use')
        return {'obj': state(obj), 'objs': [state(o) for o in (objs or [])]}

class Down(Task):
    class Meta:
        input_tasks = [Use]
    def run(self, use) -> dict:
        RUNS.append('down')
        return {'from': use}
"""


class ObjectArguments(Suite):
    """two configurations on one data directory whose parameter object differs in one constructor argument - a named one,
    one collected by ** or *, one kept only in a private attribute, one inside a list of objects: each configuration's
    tasks, asked in turn, again through new chains and in a new process, yield the value computed from its own object.
    Runtime check only (the tasks describe the object by its attributes, not by the text the library makes of it)."""
    name = 'object_arguments'
    model = ''

    def gen(self, rng, tier):
        import json
        from .c03 import ObjectPairs
        from ..values import filtered_auto_args
        out = []
        for c in ObjectPairs().gen(rng, 'quick'):
            persisted = lambda a: json.dumps(filtered_auto_args({'__auto__': c['cls'], 'args': a}), sort_keys=True)
            if c.get('cls') in ('AutoK', 'AutoV', 'AutoP', 'AutoD', 'AutoA', 'AutoC') and len(out) < 14 and persisted(c['a1']) != persisted(c['a2']):
                out.append(dict(cls=c['cls'], a1=c['a1'], a2=c['a2'], nested=False))
        out += [dict(cls='AutoK', a1={'a': 1, 'offset': 5}, a2={'a': 1, 'offset': 7}, nested=True),
                dict(cls='AutoV', a1={'steps': ['a', 'b']}, a2={'steps': ['b', 'a']}, nested=True),
                dict(cls='AutoP', a1={'path': 'a'}, a2={'path': 'b'}, nested=True)]
        return out

    def run_impl(self, case):
        import sys, types, json
        from pathlib import Path
        from taskchain import Config
        from .. import pipeline as pl
        from ..values import definition_of, materialize
        from .c05 import in_child
        with pl.workspace(dict(classes=[], files={})) as (d, _):
            name = 'tcv_objargs'
            m = types.ModuleType(name)
            sys.modules[name] = m
            try:
                exec(compile(OBJ_SRC, name, 'exec'), m.__dict__)
                specs = [{'__auto__': case['cls'], 'args': a} for a in (case['a1'], case['a2'])]

                def data(spec):
                    first = {'__auto__': 'AutoA', 'args': {'a': 0}}
                    return {'tasks': [f'{name}.*'], 'obj': definition_of(first if case['nested'] else spec),
                            'objs': definition_of([first, spec]) if case['nested'] else None}

                def want(spec):
                    first = {'__auto__': 'AutoA', 'args': {'a': 0}}
                    return {'from': {'obj': m.state(materialize(first if case['nested'] else spec)),
                                     'objs': [m.state(materialize(x)) for x in ([first, spec] if case['nested'] else [])]}}

                def see(k):
                    ch = Config(Path('data'), name=f'c{k}', data=data(specs[k])).chain()
                    return dict(value=ch['down'].value, path=str(ch['down'].data_path))

                seen = [see(0), see(1), see(0), in_child(lambda: see(1)), in_child(lambda: see(0))]
                return dict(seen=seen, want=[want(specs[0]), want(specs[1])], runs=list(m.RUNS))
            finally:
                sys.modules.pop(name, None)

    def oracle(self, case, obs):
        import json
        if 'unexpected_exception' in obs:
            return f'unexpected exception {obs["unexpected_exception"]}: {obs["text"]}'
        for step, k in enumerate([0, 1, 0, 1, 0]):
            o = obs['seen'][step]
            if 'child_error' in o:
                return f'{case}: request {step} (new process) failed: {o["child_error"]}'
            if json.dumps(o['value'], sort_keys=True) != json.dumps(obs['want'][k], sort_keys=True):
                return (f'{case}: request {step}, configuration {k} with {case["cls"]}({json.dumps(case["a" + str(k + 1)])}): `down` yields '
                        f'{json.dumps(o["value"])[:200]}, computed from its own object it is {json.dumps(obs["want"][k])[:200]}')
        return None

    def nontrivial(self, case, obs):
        import json
        return 'want' in obs and json.dumps(obs['want'][0], sort_keys=True) != json.dumps(obs['want'][1], sort_keys=True)

    def key(self, case):
        return repr(case)


class C01(Prop):
    pid = 'C01'
    suites = [Histories(), StoredValues(), ContextReuse(), NameModeParts(), ObjectArguments()]
    trusted_base = ['the reference evaluator (harness/tcv/gen_pipeline.ref_value) and the frozen scheme renderer used by the oracle']
    assumptions = ['task computations are deterministic functions of their persisted parameters and inputs',
                   'location_determines_denotation (discharged by C03 under the no-collision hypothesis on SHA-256) and '
                   'well-founded inputs (C08) are hypotheses of the C01 theorems',
                   'parameter mode; JSON and in-memory data classes in the history model']


PROP = C01()
