"""C01 - a chain never returns a stale or foreign result."""
from ..core import Prop
from .c09 import ContextReuse
from ..suites_hist import Histories
from .c04 import DataKinds


class StoredValues(DataKinds):
    """every persisting data class: what a later chain / a later process loads is the value that was computed
    (also for results of many parts: more than ten arrays, hundreds of generated items)"""
    name = 'stored_values_of_every_data_class'


class C01(Prop):
    pid = 'C01'
    suites = [Histories(), StoredValues(), ContextReuse()]
    trusted_base = ['the reference evaluator (harness/tcv/gen_pipeline.ref_value) and the frozen scheme renderer used by the oracle']
    assumptions = ['task computations are deterministic functions of their persisted parameters and inputs',
                   'location_determines_denotation (discharged by C03 under the no-collision hypothesis on SHA-256) and '
                   'well-founded inputs (C08) are hypotheses of the C01 theorems',
                   'parameter mode; JSON and in-memory data classes in the history model']


PROP = C01()
