"""C01 - a chain never returns a stale or foreign result."""
from ..core import Prop
from ..suites_hist import Histories


class C01(Prop):
    pid = 'C01'
    suites = [Histories()]
    trusted_base = ['the reference evaluator (harness/tcv/gen_pipeline.ref_value) and the frozen scheme renderer used by the oracle']
    assumptions = ['task computations are deterministic functions of their persisted parameters and inputs',
                   'location_determines_denotation (discharged by C03 under the no-collision hypothesis on SHA-256) and '
                   'well-founded inputs (C08) are hypotheses of the C01 theorems',
                   'parameter mode; JSON and in-memory data classes in the history model']


PROP = C01()
