"""C03 - different computations get different storage locations.

registry_pairs: two assignments of values to one parameter registry; the implementation's two texts, the
  Python-level comparison of what is persisted, and the membership in the proved fragment are compared with the
  model (text equality, `persisted` equality, `pok`), and - independent of the model - a pair whose persisted
  values differ must have different texts.
chain_pairs: a generated pipeline and a copy with one parameter value changed somewhere; every task whose
  reference computation descriptor differs must get a different data_path (harness oracle on the real chains;
  the keys themselves are compared with the model by the whole-chain suite of C12, also run here)."""
import copy
import json

from ..core import Prop, Suite
from ..coqlit import cbool, clist, copt, cpair, cstr
from ..values import cspec, materialize, rand_value, rand_str
from ..suites_l0 import cdecl, make_parameter, value_for_dtype, PNAMES
from ..suites_chain import ChainBuild

SEPARATORS = [', ', '###', '$$$', '=', ': ', ']', '}', '[', '{', ',', ' ', '#', '$', 'None', '1', '1.0', 'True', "'", "', '",
              "': '", "'###b='", '"', '\\']


def tagged(v):
    """canonical, type-preserving form of a JSON-like value: mapping order is ignored, 1 / 1.0 / True are distinct"""
    if v is None:
        return None
    if isinstance(v, dict) and '__reprstr__' in v:     # a substituted string is persisted by its placeholder form (C11)
        return ['r', v['__reprstr__'][1]]
    if isinstance(v, dict) and '__auto__' in v:        # what an AutoParameterObject declares as persisted
        from ..values import filtered_auto_args
        return ['A', v['__auto__'], [[k, tagged(x)] for k, x in sorted(filtered_auto_args(v).items())]]
    if isinstance(v, bool):
        return ['b', v]
    if isinstance(v, int):
        return ['i', str(v)]
    if isinstance(v, float):
        return ['f', repr(v)]
    if isinstance(v, str):
        return ['s', v]
    if isinstance(v, list):
        return ['l', [tagged(x) for x in v]]
    if isinstance(v, dict):
        return ['d', [[k, tagged(v[k])] for k in sorted(v)]]
    return ['o', repr(v)]


def strings_of(v):
    if isinstance(v, str):
        yield v
    elif isinstance(v, list):
        for x in v:
            yield from strings_of(x)
    elif isinstance(v, dict):
        for k, x in v.items():
            yield k
            yield from strings_of(x)


def in_fragment(v):
    return all("'" not in s for s in strings_of(v))


def mutate(rng, v, depth=0):
    """a value near v: the kinds of difference that separators, quoting and nesting could hide"""
    r = rng.random()
    if isinstance(v, dict) and any(k.startswith('__') for k in v):     # an object description: change one argument
        o = copy.deepcopy(v)
        if '__inst__' in o and o['args']:
            i = rng.randrange(len(o['args']))
            o['args'][i] = mutate(rng, o['args'][i], depth + 1)
        elif '__inst__' in o and o['kwargs']:
            k = rng.choice(sorted(o['kwargs']))
            o['kwargs'][k] = mutate(rng, o['kwargs'][k], depth + 1)
        elif '__auto__' in o and o['args']:
            k = rng.choice(sorted(o['args']))
            if k not in ('verbose', 'debug'):
                o['args'][k] = mutate(rng, o['args'][k], depth + 1)
        elif '__user__' in o:
            o['__user__'] += 'x'
        else:
            return rng.choice([0, 'obj'])
        return o
    if isinstance(v, list) and v and r < 0.5:
        i = rng.randrange(len(v))
        return v[:i] + [mutate(rng, v[i], depth + 1)] + v[i + 1:]
    if isinstance(v, dict) and v and r < 0.5:
        k = rng.choice(sorted(v))
        return {**v, k: mutate(rng, v[k], depth + 1)}
    if isinstance(v, list):
        r = rng.random()
        if len(v) >= 2 and all(isinstance(x, str) for x in v) and r < 0.3:
            return [rng.choice(["', '", ', ']).join(v)]        # ['a','b'] / ["a', 'b"] / ['a, b']
        if len(v) >= 2 and r < 0.5:
            return [v[:1]] + v[1:] if rng.random() < 0.5 else [v]   # regroup
        if r < 0.7:
            return v + [rng.choice([None, 0, '', [], {}])]
        if v and r < 0.85:
            return v[:-1]
        return {str(i): x for i, x in enumerate(v)}
    if isinstance(v, dict):
        r = rng.random()
        if v and r < 0.3:
            k = rng.choice(sorted(v))
            nk = k + rng.choice(SEPARATORS)
            return {(nk if kk == k else kk): x for kk, x in v.items()}
        if r < 0.6:
            return {**v, rng.choice(['n', 'k2', "q'"]): rng.choice([None, 1, 'x'])}
        if v and r < 0.8:
            k = rng.choice(sorted(v))
            return {kk: x for kk, x in v.items() if kk != k}
        return [[k, x] for k, x in v.items()]
    if isinstance(v, str):
        r = rng.random()
        if r < 0.35:
            i = rng.randrange(len(v) + 1)
            return v[:i] + rng.choice(SEPARATORS) + v[i:]
        if r < 0.5:
            return [v]
        if r < 0.6:
            for conv in (int, float):
                try:
                    return conv(v)
                except ValueError:
                    pass
            return {'None': None, 'True': True, 'False': False}.get(v, v + 'x')
        return v + rng.choice('ab1 ') if r < 0.8 else v[:-1] if v else ' '
    if v is None:
        return rng.choice(['None', 0, False, [], ''])
    if isinstance(v, bool):
        return rng.choice([int(v), str(v), not v])
    if isinstance(v, int):
        return rng.choice([v + 1, -v if v else 1, float(v), str(v), bool(v) if v in (0, 1) else v * 10])
    if isinstance(v, float):
        return rng.choice([v + 1e-9 if abs(v) < 1e6 else v * (1 + 1e-12), v * (1 + 1e-7), -v if v else 1e-300, repr(v),
                           int(v) if v == int(v) and abs(v) < 1e15 else v + 1.0, float(repr(v)[:-1] or 0) if len(repr(v)) > 3 else v + 0.5])
    return v


def share_equal_containers(v, pool=None):
    """the same value with equal lists / mappings represented by ONE object (what a YAML alias, or a Python value
    reused inside programmatically built data, gives)"""
    pool = {} if pool is None else pool
    if isinstance(v, list):
        out = [share_equal_containers(x, pool) for x in v]
    elif type(v) is dict:
        out = {k: share_equal_containers(x, pool) for k, x in v.items()}
    else:
        return v
    try:
        key = json.dumps(out, sort_keys=True, default=repr) + type(out).__name__
    except TypeError:
        return out
    return pool.setdefault(key, out)


class Pairs(Suite):
    name = 'registry_pairs'
    imports = 'Value Repr Param ReprProofs ReadProofs InjProofs'
    shard = 120
    in_type = '(list pdecl * (list (str * value) * list (str * value)))'
    out_type = 'option (bool * (bool * bool))'
    eqb = '(fun a b => match a, b with None, None => true | Some (x, (y, z)), Some (x2, (y2, z2)) => Bool.eqb x x2 && Bool.eqb y y2 && Bool.eqb z z2 | _, _ => false end)'
    prelude = '''
Fixpoint set_all (ps : list pdecl) (cfg : list (str * value)) : option (list (pdecl * (value * bool))) :=
  match ps with
  | [] => Some []
  | p :: r => match set_value p cfg, set_all r cfg with
              | inl v, Some rest => Some ((p, v) :: rest)
              | _, _ => None end
  end.
Definition pokb (pv : pdecl * (value * bool)) : bool :=
  forallb identc (pd_name (fst pv)) && jsonlike (fst (snd pv)) && match pd_dtype (fst pv) with DPath => false | _ => true end.
Fixpoint pers_eqb (a b : list (str * value)) : bool :=
  match a, b with
  | [], [] => true
  | (n, v) :: a', (m, w) :: b' => str_eqb n m && value_eqb v w && pers_eqb a' b'
  | _, _ => false
  end.
Definition pair_model (c : list pdecl * (list (str * value) * list (str * value))) : option (bool * (bool * bool)) :=
  match set_all (fst c) (fst (snd c)), set_all (fst c) (snd (snd c)) with
  | Some p1, Some p2 => Some (str_eqb (registry_text p1) (registry_text p2),
                              (pers_eqb (persisted p1) (persisted p2), forallb pokb p1 && forallb pokb p2))
  | _, _ => None
  end.
'''
    model = 'pair_model'

    def corpus(self):
        d = lambda **k: dict(dict(name='a', cfg='a', default=None, ignore=False, dropdef=False, dtype='any'), **k)
        return [
            dict(decls=[d()], c1={'a': ['a', 'b']}, c2={'a': ["a', 'b"]}),                           # K1
            dict(decls=[d(), d(name='b', cfg='b')], c1={'a': 'x', 'b': 'y'}, c2={'a': "x'###b='y", 'b': 'y'}),
            dict(decls=[d()], c1={'a': ['a', 'b']}, c2={'a': ['a, b']}),
            dict(decls=[d()], c1={'a': 1}, c2={'a': 1.0}),
            dict(decls=[d()], c1={'a': 1}, c2={'a': True}),
            dict(decls=[d()], c1={'a': '1'}, c2={'a': 1}),
            dict(decls=[d()], c1={'a': None}, c2={'a': 'None'}),
            dict(decls=[d()], c1={'a': {'k': 1, 'z': 2}}, c2={'a': {'z': 2, 'k': 1}}),                 # same value
            dict(decls=[d()], c1={'a': {'k': {'k': 1}}}, c2={'a': {'k': "{'k': 1}"}}),
            dict(decls=[d()], c1={'a': [[1], 2]}, c2={'a': [[1, 2]]}),
            dict(decls=[d()], c1={'a': 0.1234567}, c2={'a': 0.1234568}),
            dict(decls=[d()], c1={'a': 1234567.25}, c2={'a': 1234567.75}),
            dict(decls=[d(), d(name='b', cfg='b', default=[2], dropdef=True)], c1={'a': 1, 'b': 2}, c2={'a': 1, 'b': 3}),
            dict(decls=[d(), d(name='b', cfg='b')], c1={'a': 'x###b=y', 'b': 'z'}, c2={'a': 'x', 'b': 'y###b=z'}),
            dict(decls=[d(name='lr'), d(name='b', cfg='b', ignore=True)], c1={'lr': 1, 'b': 1}, c2={'lr': 1, 'b': 2}),
            # canonically equivalent but different texts (composed / decomposed), in values and in mapping keys
            dict(decls=[d()], c1={'a': 'caf\u00e9'}, c2={'a': 'cafe\u0301'}),
            dict(decls=[d()], c1={'a': {'\u212b': 1}}, c2={'a': {'\u00c5': 1}}),
            dict(decls=[d()], c1={'a': ['x', {'k': '\u1100\u1161'}]}, c2={'a': ['x', {'k': '\uac00'}]}),
            # one list / mapping object at two positions of a value (a YAML anchor and its alias, a list reused in data=)
            dict(decls=[d()], c1={'a': {'a': [1], 'b': [2], 'c': [1]}}, c2={'a': {'a': [1], 'b': [2], 'c': [2]}}, alias=True),
            dict(decls=[d()], c1={'a': [{'k': 1}, {'k': 2}, {'k': 1}]}, c2={'a': [{'k': 1}, {'k': 2}, {'k': 2}]}, alias=True),
            dict(decls=[d(), d(name='b', cfg='b')], c1={'a': [[0]], 'b': [[0], [1], [0]]}, c2={'a': [[0]], 'b': [[0], [1], [1]]}, alias=True),
            # long values that differ far from both ends of their text
            dict(decls=[d()], c1={'a': list(range(400))}, c2={'a': list(range(200)) + [-1] + list(range(201, 400))}),
            dict(decls=[d()], c1={'a': {f'k{i:02d}': {'v': i} for i in range(60)}},
                 c2={'a': {f'k{i:02d}': {'v': i if i != 30 else -1} for i in range(60)}}),
            dict(decls=[d()], c1={'a': 'x' * 1500 + 'a' + 'y' * 1500}, c2={'a': 'x' * 1500 + 'b' + 'y' * 1500}),
            dict(decls=[d(), d(name='b', cfg='b')], c1={'a': [0.5] * 300, 'b': [[i] for i in range(150)]},
                 c2={'a': [0.5] * 300, 'b': [[i] for i in range(75)] + [[75, 0]] + [[i] for i in range(76, 150)]}),
        ]

    def gen(self, rng, tier):
        out = []
        n = 500 if tier == 'quick' else 12000
        while len(out) < n:
            names = rng.sample(PNAMES, rng.choice([1, 1, 2, 3]))
            decls = []
            for nm in names:
                dt = rng.choice(['any', 'any', 'any', 'str', 'list', 'dict', 'int', 'float'])
                default = [value_for_dtype(rng, dt, True, False)] if rng.random() < 0.3 else None
                decls.append(dict(name=nm, cfg=nm, default=default, ignore=rng.random() < 0.08,
                                  dropdef=default is not None and rng.random() < 0.5, dtype=dt))
            c1 = {d['name']: value_for_dtype(rng, d['dtype'], rng.random() < 0.5, False) for d in decls}
            c2 = dict(c1)
            for _ in range(rng.choice([1, 1, 2])):
                d = rng.choice(decls)
                m = mutate(rng, c2[d['name']])
                # stay within the declared dtype
                py = {'int': int, 'float': float, 'str': str, 'list': list, 'dict': dict}.get(d['dtype'])
                if py is None or isinstance(m, py) or m is None:
                    c2[d['name']] = m
            if rng.random() < 0.15:
                d = rng.choice(decls)
                if d['default'] is not None:
                    c2[d['name']] = d['default'][0]
            out.append(dict(decls=decls, c1=c1, c2=c2))
        return out

    def run_impl(self, case):
        from taskchain.parameter import ParameterRegistry
        res = {}
        for tag in ('c1', 'c2'):
            reg = ParameterRegistry([make_parameter(d) for d in case['decls']])
            try:
                vals = {k: materialize(v) for k, v in case[tag].items()}
                if case.get('alias'):
                    vals = share_equal_containers(vals)
                reg.set_values(vals)
            except ValueError as e:
                return dict(error='ValueError', text=str(e)[:120])
            res[tag] = dict(repr=reg.repr,
                            persisted=[[p.name, tagged(p.value)] for p in sorted(reg.values(), key=lambda p: p.name)
                                       if p.repr is not None])
        return res

    def encode(self, case, obs):
        cfg = lambda c: clist([cpair(cstr(k), cspec(v)) for k, v in c.items()])
        i = cpair(clist([cdecl(d) for d in case['decls']]), cpair(cfg(case['c1']), cfg(case['c2'])))
        if 'error' in obs:
            return i, 'None'
        if 'c1' not in obs:
            return i, '(Some (false, (false, false)))'
        frag = all(d['dtype'] != 'path' for d in case['decls']) and all(
            in_fragment(v) for tag in ('c1', 'c2') for v in self.effective(case, tag))
        return i, '(Some (%s, (%s, %s)))' % (cbool(obs['c1']['repr'] == obs['c2']['repr']),
                                             cbool(obs['c1']['persisted'] == obs['c2']['persisted']), cbool(frag))

    @staticmethod
    def effective(case, tag):
        for d in case['decls']:
            if d['name'] in case[tag]:
                yield case[tag][d['name']]
            elif d['default'] is not None:
                yield d['default'][0]

    def oracle(self, case, obs):
        if 'unexpected_exception' in obs:
            return f'unexpected exception {obs["unexpected_exception"]}: {obs["text"]}'
        if 'error' in obs:
            return None
        if obs['c1']['persisted'] != obs['c2']['persisted'] and obs['c1']['repr'] == obs['c2']['repr']:
            return (f'two assignments that differ in a persisted parameter value have one text {obs["c1"]["repr"]!r}: '
                    f'{json.dumps(case["c1"])} vs {json.dumps(case["c2"])}')
        return None

    def nontrivial(self, case, obs):
        return 'c1' in obs and obs['c1']['persisted'] != obs['c2']['persisted']

    def key(self, case):
        return repr(case)

    def distribution(self, cases, obs):
        d = dict(errors=0, differ=0, same_persisted=0, in_fragment=0, with_quote=0, collisions=0)
        for c, o in zip(cases, obs):
            if 'c1' not in o:
                d['errors'] += 1
                continue
            diff = o['c1']['persisted'] != o['c2']['persisted']
            d['differ'] += diff
            d['same_persisted'] += not diff
            q = any("'" in s for tag in ('c1', 'c2') for v in c[tag].values() for s in strings_of(v))
            d['with_quote'] += q
            d['in_fragment'] += not q
            d['collisions'] += diff and o['c1']['repr'] == o['c2']['repr']
        return d


def quote_class(violation, known):
    """K1: a collision of two registry texts that needs a quote character inside a string or mapping key"""
    case = violation.get('case', {})
    if violation.get('suite') == 'chain_pairs' and 'keeps the key' in violation.get('oracle', ''):
        # the same collision met through a whole chain: the edited value and the value it replaced have one text by the
        # renderer of the release, and a quote character inside a string is what makes them so
        from .. import oracle_frozen as fz
        try:
            old = case['case']
            for step in case['edit']['where']:
                old = old[step]
            new = case['edit']['value']
            return (fz.value_text(old) == fz.value_text(new) and json.dumps(old, sort_keys=True) != json.dumps(new, sort_keys=True)
                    and any("'" in s for v in (old, new) for s in strings_of(v)))
        except (KeyError, IndexError, TypeError, NotImplementedError):
            return False
    if violation.get('suite') != 'registry_pairs' or 'one text' not in violation.get('oracle', ''):
        return False
    return any("'" in s for tag in ('c1', 'c2') for v in case.get(tag, {}).values() for s in strings_of(v))


def descriptors(case):
    """{task name: canonical computation descriptor} from the reference resolution of the configuration, or None"""
    from ..gen_pipeline import ref_chain, Unsure
    from .. import oracle_frozen as fz
    try:
        exp = ref_chain(case)
    except (Unsure, KeyError, IndexError, ValueError, AttributeError, TypeError, RecursionError):
        return None
    if isinstance(exp, tuple):
        return None
    memo = {}

    def desc(n, depth=0):
        if n not in memo:
            if depth > 50:
                raise RecursionError
            t = exp[n]
            ns = t['ns'] or ''
            ps = [[d['name'], tagged(v)] for d, v, fd in sorted(t['bound'], key=lambda b: b[0]['name'])
                  if fz.param_text(d, v, fd) is not None]
            ins = sorted([(k[len(ns) + 2:] if ns else k), desc(v['task'], depth + 1)] for k, v in t['inputs'].items() if 'task' in v)
            memo[n] = json.dumps([t['slug'], ps, ins], sort_keys=True)
        return memo[n]
    try:
        return {n: desc(n) for n in exp}, {n: exp[n]['slug'] for n in exp}, {n: exp[n]['data'] for n in exp}
    except RecursionError:
        return None


def apply_edit(case, edit):
    c = copy.deepcopy(case)
    node = c
    for k in edit['where'][:-1]:
        node = node[k]
    node[edit['where'][-1]] = edit['value']
    return c


def editable(case):
    """paths of parameter values inside the configuration documents and the context"""
    names = {p['cfg'] for c in case['classes'] for p in c['params']}
    out = []

    def walk(node, path):
        if isinstance(node, dict):
            for k, v in node.items():
                if k in names and '__' not in k:
                    out.append(path + [k])
                if k in ('configs', 'for_namespaces', 'dict', 'data') or k.startswith('p') and isinstance(v, dict) or path[-1:] == ['for_namespaces']:
                    walk(v, path + [k])
        elif isinstance(node, list):
            for i, v in enumerate(node):
                walk(v, path + [i])
    for f, body in case['files'].items():
        walk(body, ['files', f])
    if 'data' in case['base']:
        walk(case['base']['data'], ['base', 'data'])
    if case.get('context'):
        walk(case['context'], ['context'])
    return out


class ChainPairs(Suite):
    """a pipeline and a copy with one configured value changed: tasks whose reference computation descriptor differs
    must be stored at different locations; so must two tasks of one chain (runtime check on the real chains; the
    keys are tied to the model by chain_keys)"""
    name = 'chain_pairs'
    model = ''

    def corpus(self):
        from ..suites_chain import K, P
        ds = K(0, 'Dataset', params=[P('size')])
        dataset = dict(ds, name='dataset')
        join = dict(K(1, 'Join', meta_inputs=[{'name': 'train::dataset'}, {'name': 'valid::dataset'}]), name='join')
        files = {'t.json': {'tasks': ['@M.Dataset'], 'size': 100}, 'v.json': {'tasks': ['@M.Dataset'], 'size': 10}}
        base = {'name': 'main', 'data': {'tasks': ['@M.Join'], 'uses': ['t.json as train', 'v.json as valid']}}
        deep = [dict(K(0, 'A', params=[P('a')]), name='a0'), dict(K(1, 'B', meta_inputs=[{'cls': 0}]), name='b0'),
                dict(K(2, 'C', meta_inputs=[{'cls': 1}]), name='c0'), dict(K(3, 'D', meta_inputs=[{'cls': 2}, {'cls': 0}]), name='d0')]
        return [
            dict(case=dict(classes=[dataset, join], files=files, base=base, context=None),
                 edit=dict(where=['files', 't.json', 'size'], value=50)),
            dict(case=dict(classes=[dataset, join], files=files, base=base, context=None),
                 edit=dict(where=['files', 'v.json', 'size'], value=11)),
            dict(case=dict(classes=deep, files={}, base={'name': 'm', 'data': {'tasks': ['@M.*'], 'a': 0.1234567}}, context=None),
                 edit=dict(where=['base', 'data', 'a'], value=0.1234568)),
            dict(case=dict(classes=deep, files={}, base={'name': 'm', 'data': {'tasks': ['@M.*'], 'a': [1, {'k': [0.30000001]}]}}, context=None),
                 edit=dict(where=['base', 'data', 'a'], value=[1, {'k': [0.30000002]}])),
            dict(case=dict(classes=deep, files={}, base={'name': 'm', 'data': {'tasks': ['@M.*'], 'a': 1}}, context=None),
                 edit=dict(where=['base', 'data', 'a'], value=1.0)),
            # canonically equivalent, different texts (composed / decomposed) in a value and in a mapping key
            dict(case=dict(classes=deep, files={}, base={'name': 'm', 'data': {'tasks': ['@M.*'], 'a': 'caf\u00e9'}}, context=None),
                 edit=dict(where=['base', 'data', 'a'], value='cafe\u0301')),
            dict(case=dict(classes=deep, files={}, base={'name': 'm', 'data': {'tasks': ['@M.*'], 'a': [{'\u212b': 1}]}}, context=None),
                 edit=dict(where=['base', 'data', 'a'], value=[{'\u00c5': 1}])),
        ]

    def gen(self, rng, tier):
        from ..gen_pipeline import gen_case
        out = []
        n = 40 if tier == 'quick' else 800
        tries = 0
        while len(out) < n and tries < 20 * n:
            tries += 1
            case = gen_case(rng)
            if descriptors(case) is None:
                continue
            paths = editable(case)
            if not paths:
                continue
            where = rng.choice(paths)
            node = case
            for k in where:
                node = node[k]
            out.append(dict(case=case, edit=dict(where=where, value=mutate(rng, node))))
        return out

    def run_impl(self, pair):
        from .. import pipeline as pl
        from ..suites_chain import CONSTRUCTION_ERRORS
        res = {}
        for tag, case in (('a', pair['case']), ('b', apply_edit(pair['case'], pair['edit']))):
            with pl.workspace(case) as (d, mod):
                try:
                    chain = pl.build_config(case, mod).chain()
                except CONSTRUCTION_ERRORS as e:
                    res[tag] = dict(error=type(e).__name__)
                    continue
                o = pl.observe_chain(chain, with_paths=True)
                res[tag] = {n: dict(key=t['key'], path=t.get('path')) for n, t in o['tasks'].items()}
        return res

    def oracle(self, pair, obs):
        if 'unexpected_exception' in obs:
            return f'unexpected exception {obs["unexpected_exception"]}: {obs["text"]}'
        a, b = obs['a'], obs['b']
        da, db = descriptors(pair['case']), descriptors(apply_edit(pair['case'], pair['edit']))
        for tag, o, d in (('original', a, da), ('edited', b, db)):
            if 'error' in o or d is None or set(o) != set(d[0]):
                continue
            names = sorted(o)
            for i, n in enumerate(names):
                for m in names[i + 1:]:
                    if d[1][n] == d[1][m] and d[0][n] != d[0][m] and o[n]['key'] == o[m]['key']:
                        return (f'in the {tag} chain, {n} and {m} are different computations of one task and share the key '
                                f'{o[n]["key"]}')
        if 'error' in a or 'error' in b or da is None or db is None:
            return None
        for n in sorted(set(a) & set(b) & set(da[0]) & set(db[0])):
            if da[0][n] != db[0][n] and a[n]['key'] == b[n]['key']:
                return (f'task {n} computes something else after {json.dumps(pair["edit"])} (descriptor changed) but keeps the '
                        f'key {a[n]["key"]} and location {a[n]["path"]}')
        return None

    def nontrivial(self, pair, obs):
        a, b = obs.get('a', {}), obs.get('b', {})
        if 'error' in a or 'error' in b:
            return False
        return sum(1 for n in set(a) & set(b) if a[n]['key'] != b[n]['key']) >= 1

    def key(self, pair):
        return repr(pair)

    def distribution(self, pairs, obs):
        d = dict(errors=0, moved_hist={}, none_moved=0)
        for p, o in zip(pairs, obs):
            a, b = o.get('a', {}), o.get('b', {})
            if 'error' in a or 'error' in b or 'unexpected_exception' in o:
                d['errors'] += 1
                continue
            m = sum(1 for n in set(a) & set(b) if a[n]['key'] != b[n]['key'])
            d['moved_hist'][str(m)] = d['moved_hist'].get(str(m), 0) + 1
            d['none_moved'] += m == 0
        return d


class ObjectPairs(Suite):
    """two AutoParameterObjects of one class: when they differ in an argument that the class declares as persisted
    (at any depth of the argument's value), the parameter texts differ (registry level, runtime check; the Coq side
    is C03_auto_object_text_injective_partial)"""
    name = 'object_pairs'
    model = ''

    def gen(self, rng, tier):
        out = [dict(cls='AutoC', a1={'step': 1, 'debug_max_rows': 10}, a2={'step': 1, 'debug_max_rows': 20}),
               dict(cls='AutoC', a1={'step': 1, 'verbose_labels': True}, a2={'step': 1, 'verbose_labels': False}),
               dict(cls='AutoC', a1={'step': 1, 'debug': 1}, a2={'step': 1, 'debug': 2}),
               dict(cls='AutoA', a1={'a': ["x'", 'y']}, a2={'a': ["x', 'y"]}),
               dict(cls='AutoA', a1={'a': 'a\\nb'}, a2={'a': 'a\nb'}),
               # arguments collected by ** and *; a raw argument kept in the private attribute
               dict(cls='AutoK', a1={'a': 'ridge', 'alpha': 0.1}, a2={'a': 'ridge', 'alpha': 10.0}),
               dict(cls='AutoK', a1={'a': 'ridge'}, a2={'a': 'ridge', 'alpha': 0.1}),
               dict(cls='AutoK', a1={'a': 1, 'k': {'d': [1]}}, a2={'a': 1, 'k': {'d': [2]}}),
               dict(cls='AutoV', a1={'steps': ['scale', 'clip']}, a2={'steps': ['clip', 'scale']}),
               dict(cls='AutoV', a1={'steps': ['scale']}, a2={'steps': ['scale', 'scale']}),
               dict(cls='AutoV', a1={'steps': [], 'mode': 'x'}, a2={'steps': [[]], 'mode': 'x'}),
               dict(cls='AutoP', a1={'path': 'a.txt'}, a2={'path': 'b.txt'}),
               dict(cls='AutoP', a1={'path': 'a.txt', 'scale': 1}, a2={'path': 'a.txt', 'scale': 2}),
               dict(cls='AutoD', a1={'x': 1, 'rate': 1.0}, a2={'x': 1, 'rate': 1.5}),
               dict(cls='AutoD', a1={'x': 1, 'opts': {'a': 1, 'b': [2]}}, a2={'x': 1, 'opts': {'a': 1, 'b': [3]}}),
               # after an object of a class that extends the inherited ignore list in place was rendered in the process
               dict(cls='AutoW', a1={'lr': 0.1, 'workers': 4}, a2={'lr': 0.1, 'workers': 8}, prime={'__auto__': 'AutoX', 'args': {'source': 's'}}),
               dict(cls='AutoW', a1={'lr': 0.1, 'batch_size': 32}, a2={'lr': 0.1, 'batch_size': 64}, prime={'__auto__': 'AutoX', 'args': {'source': 's'}}),
               dict(cls='AutoA', a1={'a': 1, 'b': 2}, a2={'a': 1, 'b': 3}, prime={'__auto__': 'AutoX', 'args': {'source': 's', 'workers': 2}}),
               # objects of two classes that inherit one constructor, with equal arguments: the class is part of the value
               dict(cls='AutoRidge', cls2='AutoLasso', a1={'alpha': 0.5}, a2={'alpha': 0.5}),
               dict(cls='AutoRegressor', cls2='AutoRidge', a1={'alpha': 0.5, 'max_iter': 10}, a2={'alpha': 0.5, 'max_iter': 10}),
               dict(cls='AutoRidge', a1={'alpha': 0.5}, a2={'alpha': 0.25}),
               # an argument left out at its default, and a value of another type whose text equals the default's
               dict(cls='AutoD', a1={'x': 1, 'flag': 1}, a2={'x': 1, 'flag': '1'}),
               dict(cls='AutoD', a1={'x': 1}, a2={'x': 1, 'rate': '1.0'}),
               dict(cls='AutoD', a1={'x': 1, 'opts': {'a': 1, 'b': [2]}}, a2={'x': 1, 'opts': "{'a': 1, 'b': [2]}"}),
               dict(cls='AutoB', a1={'x': 1}, a2={'x': 1, 'y': 'None'}),
               # a class whose public property is a lossy view of the argument it stores privately
               dict(cls='AutoL', a1={'columns': ['b', 'a']}, a2={'columns': ['a', 'b']}),
               dict(cls='AutoL', a1={'columns': ['a', 'a']}, a2={'columns': ['a']}),
               dict(cls='AutoL', a1={'columns': ['a'], 'limit': 20}, a2={'columns': ['a'], 'limit': 30}),
               # inside a list or mapping argument: a nested parameter object against the string that spells its text
               dict(cls='AutoA', a1={'a': [{'__auto__': 'AutoB', 'args': {'x': 2}}]}, a2={'a': ['AutoB(x=2)']}),
               dict(cls='AutoA', a1={'a': {'step': {'__auto__': 'AutoB', 'args': {'x': 2}}}}, a2={'a': {'step': 'AutoB(x=2)'}}),
               dict(cls='AutoV', a1={'steps': [{'__auto__': 'AutoA', 'args': {'a': 1}}]}, a2={'steps': ['AutoA(a=1)']}),
               # the second object is a copy of the first - whose text was taken - with the argument changed afterwards
               dict(cls='AutoA', a1={'a': 0.1, 'b': 2}, a2={'a': 10.0, 'b': 2}, copied=True),
               dict(cls='AutoRidge', a1={'alpha': 0.1}, a2={'alpha': 10.0}, copied=True),
               dict(cls='AutoK', a1={'a': 1, 'offset': 5}, a2={'a': 2, 'offset': 5}, copied=True)]
        # a class edited and reloaded within one process (notebook autoreload): the class object is new, the name is not
        out += [dict(redefined=True, first=['a'], second=['a', 'b'], a1={'a': 1, 'b': 1}, a2={'a': 1, 'b': 2}),
                dict(redefined=True, first=['a', 'b'], second=['b', 'c', 'a'], a1={'a': 1, 'b': 1, 'c': [1]}, a2={'a': 1, 'b': 1, 'c': [2]}),
                dict(redefined=True, first=['x'], second=['y'], a1={'y': 'p'}, a2={'y': 'q'})]
        for _ in range(60 if tier == 'quick' else 2000):
            cls = rng.choice(['AutoA', 'AutoB', 'AutoC'])
            names = {'AutoA': ['a', 'b', 'verbose'], 'AutoB': ['x', 'y', 'debug'],
                     'AutoC': ['step', 'debug_max_rows', 'verbose_labels', 'debug']}[cls]
            a1 = {n: rand_value(rng, 2, rng.random() < 0.5, False) for n in names if rng.random() < 0.7 or n in ('a', 'step')}
            if not a1:
                a1[names[0]] = rand_value(rng, 1, False, False)
            a2 = dict(a1)
            n = rng.choice(sorted(a2))
            a2[n] = mutate(rng, a2[n])
            out.append(dict(cls=cls, a1=a1, a2=a2))
        return out

    def run_impl(self, case):
        from taskchain.parameter import Parameter, ParameterRegistry
        from ..values import filtered_auto_args
        texts, kept = [], []
        if case.get('redefined'):
            import sys, types
            m = types.ModuleType('tcv_redef')
            sys.modules['tcv_redef'] = m
            try:
                def define(names):
                    src = ('from taskchain.parameter import AutoParameterObject\nclass Reloaded(AutoParameterObject):\n'
                           f'    def __init__(self, {", ".join(names)}):\n' + ''.join(f'        self.{n} = {n}\n' for n in names))
                    exec(compile(src, 'tcv_redef', 'exec'), m.__dict__)
                    return m.Reloaded
                old = define(case['first'])
                _ = old(**{n: 0 for n in case['first']}).repr()
                new = define(case['second'])
                for args in (case['a1'], case['a2']):
                    reg = ParameterRegistry([Parameter('p')])
                    reg.set_values({'p': new(**args)})
                    texts.append(reg.repr)
                    kept.append(json.dumps(sorted(args.items())))
                return dict(texts=texts, kept=kept)
            finally:
                sys.modules.pop('tcv_redef', None)
        if case.get('prime'):
            materialize(case['prime']).repr()
        first_obj = None
        for cname, args in ((case['cls'], case['a1']), (case.get('cls2', case['cls']), case['a2'])):
            spec = {'__auto__': cname, 'args': args}
            reg = ParameterRegistry([Parameter('p')])
            obj = materialize(spec)
            if case.get('copied') and first_obj is not None:
                # a sweep: copy the object that was used (and rendered) before and change the argument on the copy
                import copy as _copy
                obj = _copy.copy(first_obj)
                for k, v in args.items():
                    setattr(obj, '_' + k if hasattr(obj, '_' + k) else k, materialize(v))
            first_obj = first_obj or obj
            reg.set_values({'p': obj})
            texts.append(reg.repr)
            kept.append(json.dumps([cname, sorted([k, tagged(v)] for k, v in filtered_auto_args(spec).items())], sort_keys=True))
        return dict(texts=texts, kept=kept)

    def oracle(self, case, obs):
        if 'unexpected_exception' in obs:
            return f'unexpected exception {obs["unexpected_exception"]}: {obs["text"]}'
        if obs['kept'][0] != obs['kept'][1] and obs['texts'][0] == obs['texts'][1]:
            return (f'{case.get("cls", "class redefined under its name")}: arguments {json.dumps(case["a1"])} and {json.dumps(case["a2"])} differ in what the class '
                    f'persists, yet the parameter text is {obs["texts"][0]!r} for both')
        return None

    def nontrivial(self, case, obs):
        return 'kept' in obs and obs['kept'][0] != obs['kept'][1]

    def key(self, case):
        return repr(case)


class LocationsAfterRunning(Suite):
    """two chains that differ in a parameter of an upstream task - kept in memory only, or stored - are built in one
    process, their tasks are run, forced and run again: the location every task object reports stays the one it had at
    construction, the two computations stay apart, and a later process finds each value at its own location.
    Runtime check only."""
    name = 'locations_after_running'
    model = ''

    def gen(self, rng, tier):
        return [dict(up=up, values=vs, recompute=rc) for up in ('memory', 'json') for vs in ([1, 2], [0, False], [2, 2, 3])
                for rc in ('force_task', 'force_chain', 'reset')]

    def run_impl(self, case):
        from pathlib import Path
        from taskchain import Config
        from .. import pipeline as pl
        from ..suites_chain import K, P
        classes = [dict(K(0, 'Sampler', params=[P('size')], data=case['up']), name='sampler'),
                   dict(K(1, 'Stats', meta_inputs=[{'cls': 0}]), name='stats', runargs=['sampler']),
                   dict(K(2, 'Report', meta_inputs=[{'cls': 1}]), name='report')]
        with pl.workspace(dict(classes=classes, files={})) as (d, mod):
            def chains():
                return [Config(Path('data'), name=f'c{i}', data={'tasks': [f'{mod}.*'], 'size': v}).chain() for i, v in enumerate(case['values'])]
            loc = lambda ch: {n: [t.name_for_persistence, pl.rel_path(t.data_path) if t.has_data or True else None] for n, t in ch.tasks.items()}
            cs = chains()
            out = {'built': [loc(c) for c in cs]}
            out['values'] = [{n: t.value for n, t in c.tasks.items()} for c in cs]
            out['after_run'] = [loc(c) for c in cs]
            for c in cs:
                if case['recompute'] == 'force_task':
                    for t in c.tasks.values():
                        t.force()
                elif case['recompute'] == 'force_chain':
                    c.force('sampler', recompute=True)
                else:
                    for t in c.tasks.values():
                        t.reset_data()
            out['values2'] = [{n: t.value for n, t in c.tasks.items()} for c in cs]
            out['after_rerun'] = [loc(c) for c in cs]
            fresh = chains()
            out['fresh'] = [loc(c) for c in fresh]
            out['fresh_has'] = [{n: bool(t.has_data) for n, t in c.tasks.items() if t.data_path is not None} for c in fresh]
            out['fresh_values'] = [{n: t.value for n, t in c.tasks.items()} for c in fresh]
            return out

    def oracle(self, case, obs):
        if 'unexpected_exception' in obs:
            return f'unexpected exception {obs["unexpected_exception"]}: {obs["text"]}'
        import json as js
        for stage in ('after_run', 'after_rerun', 'fresh'):
            for i, (b, a) in enumerate(zip(obs['built'], obs[stage])):
                if b != a:
                    n = next(k for k in b if b[k] != a.get(k))
                    return (f'{case}: task {n} of chain {i} reports the location {a.get(n)} {stage.replace("_", " ")}; when the chain '
                            f'was built it was {b[n]}')
        for i, vi in enumerate(case['values']):
            for j in range(i + 1, len(case['values'])):
                same = js.dumps(vi) == js.dumps(case['values'][j]) and type(vi) is type(case['values'][j])
                for n in obs['built'][i]:
                    if (obs['built'][i][n][0] == obs['built'][j][n][0]) != same:
                        return (f'{case}: task {n} has the key {obs["built"][i][n][0]} with size={vi!r} and {obs["built"][j][n][0]} '
                                f'with size={case["values"][j]!r}')
        for stage in ('values2', 'fresh_values'):
            if js.dumps(obs[stage], sort_keys=True) != js.dumps(obs['values'], sort_keys=True):
                return f'{case}: the values are {obs[stage]} ({stage}); the first computation gave {obs["values"]}'
        for i, h in enumerate(obs['fresh_has']):
            if not all(h.values()):
                return f'{case}: a new chain of config {i} finds no stored result for {[n for n, x in h.items() if not x]}'
        return None

    def nontrivial(self, case, obs):
        return 'built' in obs

    def key(self, case):
        return repr(case)


class Keys(ChainBuild):
    """whole chains: keys of the model against the implementation and against the frozen key scheme"""
    name = 'chain_keys'
    aspects = ('keys',)


class C03(Prop):
    pid = 'C03'
    suites = [Pairs(), ObjectPairs(), ChainPairs(), Keys(), LocationsAfterRunning()]
    known_classes = {'unescaped-quote': quote_class}
    assumptions = ['no collision of the hash on the key texts of the chains compared (hypothesis of the chain theorem; '
                   'SHA-256 truncated to 128 bits)',
                   'proved fragment: identifier parameter names, JSON-like values without quote characters in strings and '
                   'mapping keys, no Path parameters, no parameter objects; the generator also leaves the fragment, where '
                   'only the correspondence and the oracle apply']


PROP = C03()
