"""C06 - stored values round-trip exactly."""
import hashlib
import json
import os
import shutil
import sys
import tempfile
import types
from pathlib import Path

from ..core import Prop, Suite
from ..coqlit import clist, cpair, cstr

UNI = ['', 'a', 'é', '中', '😀', ' lead', 'trail ', 'q"uote', "it's", 'back\\slash', 'tab\tx', 'nl\nx', ' ', 'null\x00x', '{}', '[1]']


def rand_json(rng, depth=3, top=False):
    r = rng.random()
    if depth <= 0 or (r < 0.45 and not top):
        return rng.choice([None, True, False, 0, 1, -1, 2 ** 63 - 1, -2 ** 63, 2 ** 64 - 1, 0.0, -0.0, 1.5, 1e308, 5e-324, 0.1,
                           1e16, 123456789.123456789] + UNI)
    if r < 0.72:
        return [rand_json(rng, depth - 1) for _ in range(rng.choice([0, 1, 2, 3]))]
    return {rng.choice(UNI + ['k', 'key2']) + str(i): rand_json(rng, depth - 1) for i in range(rng.choice([0, 1, 2, 3]))}


def describe(v):
    """Type-, dtype-, shape- and order-sensitive canonical description (JSON-able)."""
    import numpy as np
    import pandas as pd
    if isinstance(v, bool) or v is None:
        return [type(v).__name__, v]
    if isinstance(v, int):
        return ['int', str(v)]
    if isinstance(v, float):
        return ['float', v.hex()]
    if isinstance(v, str):
        return ['str', v.encode('utf-8', 'surrogatepass').hex()]
    if isinstance(v, (list, tuple)):
        return [type(v).__name__, [describe(x) for x in v]]
    if isinstance(v, dict):
        return ['dict', sorted([[describe(k), describe(x)] for k, x in v.items()], key=lambda kv: json.dumps(kv[0]))]   # dict equality ignores key order
    if isinstance(v, np.ndarray):
        c = np.ascontiguousarray(v)
        return ['ndarray', v.dtype.str, list(v.shape), c.tobytes().hex() if v.dtype.kind != 'O' else repr(v.tolist())]
    if isinstance(v, np.generic):
        return ['npscalar', v.dtype.str, repr(v.item())]
    if isinstance(v, pd.DataFrame):
        return ['DataFrame', [describe(c) for c in v.columns.tolist()], str(v.columns.dtype), describe(v.index.tolist()),
                str(v.index.dtype), [str(t) for t in v.dtypes.tolist()], [describe(v[c].tolist()) for c in v.columns]]
    if isinstance(v, pd.Series):
        return ['Series', describe(v.name), str(v.dtype), describe(v.index.tolist()), str(v.index.dtype), describe(v.tolist())]
    if isinstance(v, Path):
        out = []
        for p in sorted(v.rglob('*')):
            out.append([str(p.relative_to(v)), 'dir' if p.is_dir() else hashlib.sha256(p.read_bytes()).hexdigest()])
        return ['dir', out]
    if callable(v):
        return describe(list(v()))
    return ['other', repr(v)]


def build(spec):
    """spec -> the Python value run() returns."""
    import numpy as np
    import pandas as pd
    k = spec['kind']
    if k == 'json':
        return spec['value']
    if k == 'numpy':
        a = np.array(spec['data'], dtype=spec['dtype']).reshape(spec['shape'])
        if spec.get('slice'):
            a = a[tuple(slice(None, None, 2) for _ in a.shape)]
        if spec.get('fortran'):
            a = np.asfortranarray(a)
        return a
    if k == 'frame':
        df = pd.DataFrame({c: pd.Series(col, dtype=dt, index=spec['index']) for c, col, dt in spec['columns']}, index=spec['index'])
        return df
    if k == 'series':
        return pd.Series(spec['data'], index=spec['index'], dtype=spec['dtype'], name=spec['name'])
    if k == 'generated' and spec.get('reuse'):
        def rows():                 # one row buffer, filled further between the yields (a running accumulator)
            buf = []
            for x in spec['items']:
                buf.append(x)
                yield buf
        return rows()
    if k == 'generated':
        return (x for x in spec['items'])
    if k == 'listnumpy':
        return [np.array(d, dtype=dt) for d, dt in spec['arrays']]
    raise ValueError(k)


RET = {'json': None, 'numpy': 'np.ndarray', 'frame': 'pd.DataFrame', 'series': 'pd.Series', 'generated': 'Generator',
       'listnumpy': 'list', 'dir': 'DirData'}


def make_task_module(spec):
    name = 'tcv_dyn_rt'
    m = types.ModuleType(name)
    ret = RET[spec['kind']] or spec.get('declared') or type(spec['value']).__name__
    src = ('from typing import Generator\nimport numpy as np\nimport pandas as pd\nfrom pathlib import Path\n'
           'from taskchain import Task\nfrom taskchain.data import DirData, ListOfNumpyData\n'
           'from tcv.props.c06 import build as _build\n'
           'class Rt(Task):\n    class Meta:\n        task_group = "rt"\n'
           + ('        data_class = ListOfNumpyData\n' if spec['kind'] == 'listnumpy' else '')
           + f'    def run(self) -> {ret}:\n'
           + ('        d = self.get_data_object()\n        for rel, text in _SPEC["files"]:\n'
              '            p = d.dir / rel\n            p.parent.mkdir(parents=True, exist_ok=True)\n            p.write_bytes(bytes.fromhex(text))\n        return d\n'
              if spec['kind'] == 'dir' else '        return _build(_SPEC)\n'))
    m.__dict__['_SPEC'] = spec
    sys.modules[name] = m
    exec(compile(src, name, 'exec'), m.__dict__)
    m.Rt.__module__ = name
    return m


def in_child(fn):
    r, w = os.pipe()
    pid = os.fork()
    if pid == 0:
        code = 0
        try:
            os.close(r)
            os.dup2(os.open(os.devnull, os.O_WRONLY), 2)     # progress bars of write_jsons / iter_json_file
            out = fn()
            with os.fdopen(w, 'w') as f:
                json.dump(out, f)
        except BaseException as e:   # noqa
            try:
                os.write(w, json.dumps({'child_error': f'{type(e).__name__}: {e}'[:300]}).encode())
            except Exception:
                pass
            code = 1
        finally:
            os._exit(code)
    os.close(w)
    with os.fdopen(r) as f:
        data = f.read()
    os.waitpid(pid, 0)
    return json.loads(data) if data else {'child_error': 'no output'}


def files_digest(root):
    out = {}
    for p in sorted(Path(root).rglob('*')):
        if p.is_file() and not p.name.endswith(('.log', '.yaml')):
            out[str(p.relative_to(root))] = hashlib.sha256(p.read_bytes()).hexdigest()
    return out


class RoundTrips(Suite):
    """runtime/serializer matter: no Coq model; computing chain vs a later chain in a fresh process"""
    name = 'round_trips'
    model = ''

    def corpus(self):
        # long sequences (anything done per block of items shows only there), 0-d arrays, many arrays
        return [dict(kind='generated', items=list(range(690, 940))),
                dict(kind='generated', items=[{'k': i, 's': 'x' * (i % 7)} for i in range(205)]),
                dict(kind='generated', items=[[i, str(i)] for i in range(101)]),
                dict(kind='listnumpy', arrays=[[[i, i + 1], 'int64'] for i in range(25)]),
                # arrays whose dtype spells the byte order out (data read from a binary format): the dtype is part of the value
                *[dict(kind='numpy', dtype=dt, shape=[3], data=d, slice=False, fortran=False, complex=False)
                  for dt, d in (('>i4', [1, -2, 300]), ('>f8', [0.5, -1e4, 3.0]), ('>u2', [1, 2, 515]), ('<i4', [1, -2, 300]),
                                ('>U3', ['a', 'abc', 'é']), ('=i2', [1, 2, 3]))],
                dict(kind='numpy', dtype='>i4', shape=[2, 2], data=[1, 2, 3, 4], slice=False, fortran=True, complex=False),
                dict(kind='listnumpy', arrays=[[[1, 2], '>i4'], [[3.5], '>f8'], [[7], '<u2']]),
                # strings and keys that look like printed lists of numbers, inside values that are written with indentation
                dict(kind='json', value={'repr': 'array([ 1.5, 10. ])', 'bins [ 1, 2 ]': ['shape=[ 3,   224,   224 ]', '[ 1,\n  2 ]', '[\u00a01,\u00a02 ]'],
                                         'nums': [1, 2, 3], 'nested': [[1.5, -0.0], [], [[2 ** 63 - 1]]]}),
                dict(kind='json', value=['[ 1, 2 ]', ' [1,2] ', '[\n    1,\n    2\n]', {'[\n  1\n]': '[ ]'}]),
                # values that the declared type admits without being of exactly that type (a bool is an int, ...)
                dict(kind='json', value=True, declared='int'), dict(kind='json', value=False, declared='int'),
                dict(kind='json', value=True, declared='bool'), dict(kind='json', value=3, declared='int'),
                dict(kind='json', value=2.0, declared='float'), dict(kind='json', value='7', declared='str'),
                # mappings whose string keys look like numbers (years, ids with leading zeros, a superscript digit)
                dict(kind='json', value={'2020': 1, '0': {'007': [1], '7': 2}, '-1': 3, '1.5': 4, '²': 5}),
                dict(kind='json', value=[{'10': 'a', '9': 'b'}, {'k': {'1': {'2': {}}}}]),
                dict(kind='generated', items=[{'2020': 1}, {'0': {'00': 2}}]),
                # a generator that yields one and the same object again and again, changed in between
                dict(kind='generated', items=[1, 2, 3], reuse=True), dict(kind='generated', items=['a', {'k': 1}], reuse=True),
                # object-dtype columns and series whose elements are all numbers, booleans, or numbers with None
                dict(kind='frame', index=[0, 1, 2], columns=[['a', [1, 2, 3], 'object'], ['b', [1.5, None, 2.0], 'object'],
                                                            ['c', [True, False, True], 'object'], ['d', ['x', 1, None], 'object']]),
                dict(kind='frame', index=['r0', 'r1', 'r2'], columns=[['n', [1, 2.5, True], 'object']]),
                dict(kind='series', data=[1, 2, 3], index=[0, 1, 2], dtype='object', name='n'),
                dict(kind='series', data=[1.5, None, 3], index=['a', 'b', 'c'], dtype='object', name=None)]

    def gen(self, rng, tier):
        out = []
        n = 60 if tier == 'quick' else 1500
        for _ in range(n):
            k = rng.choice(['json', 'json', 'json', 'numpy', 'numpy', 'frame', 'series', 'generated', 'listnumpy', 'dir'])
            if k == 'json':
                t = rng.choice(['dict', 'list', 'str', 'int', 'float', 'bool'])
                v = {'dict': lambda: {rng.choice(UNI) + str(i): rand_json(rng, 3) for i in range(rng.choice([0, 1, 2, 3]))},
                     'list': lambda: [rand_json(rng, 3) for _ in range(rng.choice([0, 1, 2, 4]))],
                     'str': lambda: rng.choice(UNI), 'int': lambda: rng.choice([0, 1, -1, 2 ** 63 - 1, -2 ** 63, 2 ** 64 - 1]),
                     'float': lambda: rng.choice([0.0, -0.0, 1.5, 1e308, 5e-324, 0.1]), 'bool': lambda: rng.choice([True, False])}[t]()
                out.append(dict(kind='json', value=v))
            elif k == 'numpy':
                dt = rng.choice(['bool', 'int8', 'int16', 'int32', 'int64', 'uint8', 'uint16', 'uint32', 'uint64', 'float16',
                                 'float32', 'float64', 'complex64', 'complex128', 'U3', 'S3'])
                shape = rng.choice([[], [0], [1], [3], [2, 3], [0, 2], [2, 1, 2], [4, 4]])
                size = 1
                for s in shape:
                    size *= s
                if dt == 'bool':
                    data = [rng.random() < 0.5 for _ in range(size)]
                elif dt[0] in 'US':
                    data = [rng.choice(['', 'a', 'abc', 'é' if dt[0] == 'U' else 'z']) for _ in range(size)]
                elif dt.startswith('complex'):
                    data = [[rng.uniform(-5, 5), rng.uniform(-5, 5)] for _ in range(size)]
                    data = [complex(a, b).__repr__() for a, b in data]
                elif dt.startswith('float'):
                    data = [rng.choice([0.0, -0.0, 1.5, float('inf'), -1e4, 0.1]) for _ in range(size)]
                elif dt.startswith('uint'):
                    data = [rng.choice([0, 1, 2 ** (8 * int(dt[4:]) // 8 * 8) - 1 if False else 200]) for _ in range(size)]
                else:
                    data = [rng.choice([0, 1, -1, 100, -100]) for _ in range(size)]
                if dt.startswith('complex'):
                    data = [complex(x) for x in data]
                    data = [[x.real, x.imag] for x in data]
                out.append(dict(kind='numpy', dtype=dt, shape=shape, data=data, slice=rng.random() < 0.2 and bool(shape),
                                fortran=rng.random() < 0.2, complex=dt.startswith('complex')))
            elif k == 'frame':
                n_rows = rng.choice([0, 1, 3])
                idx = rng.choice([list(range(n_rows)), [f'r{i}' for i in range(n_rows)], [10 - i for i in range(n_rows)]])
                cols = []
                for c in rng.sample(['a', 'b', 'é', 'col 1', 0, 1.5], rng.choice([0, 1, 2, 3])):
                    dt = rng.choice(['int64', 'float64', 'bool', 'object', 'int8'])
                    col = {'int64': [1, -2, 3], 'float64': [0.5, -0.0, 1e10], 'bool': [True, False, True], 'object': ['x', '', 'é'],
                           'int8': [1, 2, 3]}[dt][:n_rows]
                    cols.append([c, col, dt])
                out.append(dict(kind='frame', index=idx, columns=cols))
            elif k == 'series':
                n_rows = rng.choice([0, 1, 3])
                dt = rng.choice(['int64', 'float64', 'bool', 'object'])
                data = {'int64': [1, -2, 3], 'float64': [0.5, -0.0, 1e10], 'bool': [True, False, True], 'object': ['x', '', 'é']}[dt][:n_rows]
                out.append(dict(kind='series', data=data, index=[f'i{i}' for i in range(n_rows)], dtype=dt, name=rng.choice([None, 'n', 3])))
            elif k == 'generated':
                out.append(dict(kind='generated', items=[rand_json(rng, 2) for _ in range(rng.choice([0, 1, 2, 5, 12]))]))
            elif k == 'listnumpy':
                out.append(dict(kind='listnumpy', arrays=[[[i, i + 1], rng.choice(['int64', 'float32'])] for i in range(rng.choice([0, 1, 2, 11, 13]))]))
            else:
                out.append(dict(kind='dir', files=[[rng.choice(['a.txt', 'sub/b.bin', 'sub/deep/c', 'é.txt']) + str(i),
                                                    bytes(rng.randrange(256) for _ in range(rng.choice([0, 1, 20]))).hex()]
                                                   for i in range(rng.choice([0, 1, 3]))]))
        return out

    def run_impl(self, case):
        spec = dict(case)
        if spec['kind'] == 'numpy' and spec.get('complex'):
            spec = dict(spec, data=[complex(a, b) for a, b in spec['data']])
        tmp = tempfile.mkdtemp(prefix='tcverif-rt-')
        old = os.getcwd()
        try:
            os.chdir(tmp)
            m = make_task_module(spec)

            def chain():
                from taskchain import Config
                return Config(Path('data'), name='cfg', data={'tasks': [m.Rt]}).chain()

            def compute():
                v = chain()['rt:rt'].value
                returned = build(spec) if spec['kind'] != 'dir' else None
                return dict(computing=describe(v), returned=describe(returned) if returned is not None else None)

            def load():
                t = chain()['rt:rt']
                has = bool(t.has_data)
                before = files_digest('data')
                v = t.value
                return dict(loaded=describe(v), has=has, before=before, after=files_digest('data'))
            a = in_child(compute)
            if 'child_error' in a:
                return dict(compute_error=a['child_error'])
            b = in_child(load)
            if 'child_error' in b:
                return dict(load_error=b['child_error'], computing=a['computing'])
            return dict(a, **b)
        finally:
            os.chdir(old)
            sys.modules.pop('tcv_dyn_rt', None)
            shutil.rmtree(tmp, ignore_errors=True)

    def oracle(self, case, obs):
        if 'unexpected_exception' in obs:
            return f'unexpected exception {obs["unexpected_exception"]}: {obs["text"]}'
        if 'compute_error' in obs:
            return f'the computing chain fails on a storable {case["kind"]} value: {obs["compute_error"]}'
        if 'load_error' in obs:
            return f'a stored {case["kind"]} value cannot be loaded by a later chain: {obs["load_error"]}'
        if not obs['has']:
            return 'the later chain finds no stored result'
        if obs['before'] != obs['after']:
            return 'loading changed the stored files'
        want = obs['returned'] if obs['returned'] is not None else obs['computing']
        if case['kind'] == 'generated':
            want = ['list', want[1]] if want[0] != 'list' else want
        if obs['loaded'] != obs['computing']:
            return f'the later chain loads {json.dumps(obs["loaded"])[:300]}, the computing chain returned {json.dumps(obs["computing"])[:300]}'
        if case['kind'] not in ('dir', 'generated') and obs['computing'] != want:
            return f'the computing chain returned {json.dumps(obs["computing"])[:300]} for run result {json.dumps(want)[:300]}'
        return None

    def nontrivial(self, case, obs):
        return 'loaded' in obs

    def key(self, case):
        return repr(case)

    def distribution(self, cases, obs):
        d = {}
        for c, o in zip(cases, obs):
            k = c['kind'] + ('/rejected' if 'compute_error' in o else '')
            d[k] = d.get(k, 0) + 1
        return d


class Framing(Suite):
    """write_jsons / iter_json_file against the json-lines framing model"""
    name = 'jsonl_framing'
    imports = 'DataClass'
    shard = 100
    in_type = 'list str'
    out_type = '(str * list str)'
    eq_dec = '(prod_eq_dec str_eq_dec str_list_eq_dec)'
    model = '(fun items : list str => (write_jsonl items, read_jsonl (write_jsonl items)))'

    def corpus(self):
        return [dict(items=list(range(250))), dict(items=[{'i': i} for i in range(101)])]

    def gen(self, rng, tier):
        return [dict(items=[rand_json(rng, 2) for _ in range(rng.choice([0, 1, 2, 3, 7]))]) for _ in range(150 if tier == 'quick' else 3000)]

    def run_impl(self, case):
        from taskchain.utils.io import write_jsons, iter_json_file
        from taskchain.utils import json as tj
        tmp = tempfile.mkdtemp(prefix='tcverif-jl-')
        try:
            p = Path(tmp) / 'x.jsonl'
            write_jsons(case['items'], p, use_tqdm=False)
            raw = p.read_bytes()
            back = list(iter_json_file(p, use_tqdm=False))
            return dict(text=raw.hex(), back=[tj.dumps(x) for x in back], item_texts=[tj.dumps(x) for x in case['items']],
                        same=describe(back) == describe(case['items']))
        finally:
            shutil.rmtree(tmp, ignore_errors=True)

    def encode(self, case, obs):
        if 'text' not in obs:
            return clist([]), cpair(cstr('unexpected'), clist([]))
        return clist([cstr(t) for t in obs['item_texts']]), cpair(cstr(bytes.fromhex(obs['text'])), clist([cstr(t) for t in obs['back']]))

    def oracle(self, case, obs):
        if 'unexpected_exception' in obs:
            return f'unexpected exception {obs["unexpected_exception"]}: {obs["text"]}'
        if not obs['same']:
            return 'a generated sequence does not read back item by item with the same types and order'
        return None

    def nontrivial(self, case, obs):
        return len(case['items']) >= 2

    def key(self, case):
        return repr(case)


def modify_in_place(v):
    """what a consumer that treats its input as scratch space does to a loaded value"""
    import numpy as np
    import pandas as pd
    if isinstance(v, np.ndarray):
        if v.size and v.dtype.kind in 'iuf':
            v += 1
        elif v.size and v.dtype.kind == 'b':
            v[...] = ~v
    elif isinstance(v, list):
        for x in v:
            modify_in_place(x)
        v.append('SCRIBBLE')
    elif isinstance(v, dict):
        for x in list(v.values()):
            modify_in_place(x)
        v['SCRIBBLE'] = 1
    elif isinstance(v, pd.DataFrame):
        if len(v.columns) and len(v):
            v.iloc[0, 0] = v.iloc[-1, 0]


class Replaced(Suite):
    """histories, not single round trips: a result is stored, then the task is forced and run returns another value
    of the same data class - equal under == but not in element types (1 / 1.0 / True), shorter, or of another dtype;
    optionally an interrupted earlier save has left its working file or directory behind.  The value a later
    process loads is the one the last run returned.  Runtime check only."""
    name = 'replaced_values'
    model = ''

    def gen(self, rng, tier):
        J = lambda a, b: dict(first=dict(kind='json', value=a), second=dict(kind='json', value=b))
        arr = lambda n, dt='int64': dict(kind='listnumpy', arrays=[[[i, i + 1], dt] for i in range(n)])
        out = [J({'a': 1, 'b': [0, True]}, {'a': 1.0, 'b': [False, 1]}), J([1, 2, 3], [1.0, 2, 3]), J([0, 1], [False, True]),
               J({'n': {'m': [1.0]}}, {'n': {'m': [1]}}), J({'a': 1}, {'a': 2}), J([1, 2, 3], [1, 2]), J({'a': 1, 'b': 2}, {'a': 1}),
               dict(first=arr(5), second=arr(2)), dict(first=arr(12), second=arr(11)), dict(first=arr(3), second=arr(3, 'float32')),
               dict(first=arr(0), second=arr(2)), dict(first=arr(2), second=arr(0)),
               dict(first=dict(kind='generated', items=[1, 2, 3]), second=dict(kind='generated', items=[1.0, 2])),
               dict(first=dict(kind='generated', items=[{'a': 0}]), second=dict(kind='generated', items=[{'a': False}])),
               dict(first=dict(kind='generated', items=[1, 2]), second=dict(kind='generated', items=[])),
               dict(first=dict(kind='numpy', dtype='int64', shape=[3], data=[1, 2, 3]),
                    second=dict(kind='numpy', dtype='float64', shape=[3], data=[1.0, 2.0, 3.0])),
               dict(first=dict(kind='numpy', dtype='int64', shape=[2, 2], data=[1, 2, 3, 4]),
                    second=dict(kind='numpy', dtype='int64', shape=[4], data=[1, 2, 3, 4])),
               dict(first=dict(kind='frame', index=[0, 1], columns=[['a', [1, 2], 'int64']]),
                    second=dict(kind='frame', index=[0, 1], columns=[['a', [1.0, 2.0], 'float64']])),
               dict(first=dict(kind='dir', files=[['a.txt', '00'], ['sub/b.bin', '0102'], ['c', '']]),
                    second=dict(kind='dir', files=[['a.txt', '00']]))]
        cases = []
        for c in out:
            for how in ('forced', 'leftover', 'forced_leftover'):
                cases.append(dict(c, how=how))
        # a process that has loaded the value while ANOTHER process replaces it, then loads it again in a new chain
        for c in out[:8] + out[12:16]:
            cases.append(dict(c, how='other_process'))
        # a later chain modifies the value it loaded, in place: the stored files and what the next chain loads stay
        big = dict(kind='numpy', dtype='float64', shape=[700000], data=None, big=True)
        for first in [c['first'] for c in out if c['first']['kind'] in ('json', 'numpy', 'listnumpy', 'frame')][:10] + [big]:
            cases.append(dict(first=first, second=first, how='modified_after_load'))
        return cases

    def run_impl(self, case):
        tmp = tempfile.mkdtemp(prefix='tcverif-rp-')
        old = os.getcwd()
        try:
            os.chdir(tmp)
            first, second, how = case['first'], case['second'], case['how']

            def chain(root='data'):
                from taskchain import Config
                return Config(Path(root), name='cfg', data={'tasks': [sys.modules['tcv_dyn_rt'].Rt]}).chain()

            def compute_first(root):
                t = chain(root)['rt:rt']
                _ = t.value
                return dict(path=str(t.data_path))

            def compute_second():
                t = chain()['rt:rt']
                if 'forced' in how:
                    t.force()
                return dict(computing=describe(t.value), returned=describe(build(second)) if second['kind'] != 'dir' else None)

            def load():
                t = chain()['rt:rt']
                return dict(has=bool(t.has_data), loaded=describe(t.value))
            if first.get('big'):
                first = dict(first, data=[float(i % 97) for i in range(first['shape'][0])])
                second = first
            make_task_module(first)
            if how == 'modified_after_load':
                a = in_child(lambda: dict(computing=describe(chain()['rt:rt'].value)))
                if 'child_error' in a:
                    return dict(setup_error=a['child_error'])

                def load_and_modify():
                    t = chain()['rt:rt']
                    before = files_digest('data')
                    v = t.value
                    loaded = describe(v)
                    modify_in_place(v)
                    del v, t
                    import gc
                    gc.collect()
                    return dict(loaded=loaded, unchanged=before == files_digest('data'))
                b = in_child(load_and_modify)
                if 'child_error' in b:
                    return dict(load_error=b['child_error'], computing=a['computing'])
                c = in_child(load)
                if 'child_error' in c:
                    return dict(load_error=c['child_error'], computing=a['computing'])
                small = lambda d: d if len(json.dumps(d)) < 5000 else ['digest', hashlib.sha256(json.dumps(d).encode()).hexdigest()]
                return dict(computing=small(a['computing']), loaded=small(c['loaded']), has=c['has'], first_load=small(b['loaded']),
                            files_unchanged=b['unchanged'])
            if how == 'other_process':
                def p1():
                    a1 = in_child(lambda: compute_first('data'))
                    if 'child_error' in a1:
                        return dict(setup_error=a1['child_error'])
                    seen_first = describe(chain()['rt:rt'].value)          # this process has loaded the first value
                    make_task_module(second)
                    b1 = in_child(lambda: (chain()['rt:rt'].force(), dict(computing=describe(chain_forced().value)))[1])
                    if 'child_error' in b1:
                        return dict(compute_error=b1['child_error'])
                    t = chain()['rt:rt']                                   # a new chain in the process that loaded before
                    return dict(computing=b1['computing'], has=bool(t.has_data), loaded=describe(t.value), seen_first=seen_first)

                def chain_forced():
                    t = chain()['rt:rt']
                    t.force()
                    return t
                return in_child(p1)
            if 'forced' in how:
                a = in_child(lambda: compute_first('data'))
                if 'child_error' in a:
                    return dict(setup_error=a['child_error'])
            if 'leftover' in how:
                # what a save of the first value leaves when it is interrupted before publication: its complete
                # working file / directory under the working name
                a = in_child(lambda: compute_first('scratch'))
                if 'child_error' in a:
                    return dict(setup_error=a['child_error'])
                src = Path(a['path'])
                dst = Path('data') / src.relative_to('scratch')
                dst = dst.with_name(dst.stem + '_tmp' + dst.suffix)
                dst.parent.mkdir(parents=True, exist_ok=True)
                if src.is_dir():
                    shutil.copytree(src, dst)
                else:
                    shutil.copyfile(src, dst)
            make_task_module(second)
            b = in_child(compute_second)
            if 'child_error' in b:
                return dict(compute_error=b['child_error'])
            c = in_child(load)
            if 'child_error' in c:
                return dict(load_error=c['child_error'], computing=b['computing'])
            return dict(b, **c)
        finally:
            os.chdir(old)
            sys.modules.pop('tcv_dyn_rt', None)
            shutil.rmtree(tmp, ignore_errors=True)

    def oracle(self, case, obs):
        if 'unexpected_exception' in obs:
            return f'unexpected exception {obs["unexpected_exception"]}: {obs["text"]}'
        for k in ('setup_error', 'compute_error'):
            if k in obs:
                return f'{case["how"]}: computing fails: {obs[k]}'
        if 'load_error' in obs:
            return f'{case["how"]}: the value stored by the last run cannot be loaded by a later chain: {obs["load_error"]}'
        if not obs['has']:
            return 'the later chain finds no stored result'
        if case['how'] == 'modified_after_load':
            if not obs['files_unchanged']:
                return 'modified_after_load: modifying a loaded value in place changed the stored files'
            if obs['first_load'] != obs['computing']:
                return f'modified_after_load: the first later chain loads {json.dumps(obs["first_load"])[:200]}, run returned {json.dumps(obs["computing"])[:200]}'
        if obs['loaded'] != obs['computing']:
            return (f'{case["how"]}: the later chain loads {json.dumps(obs["loaded"])[:300]}, the last run returned '
                    f'{json.dumps(obs["computing"])[:300]} (first value: {json.dumps(case["first"])[:200]})')
        return None

    def nontrivial(self, case, obs):
        return 'loaded' in obs

    def key(self, case):
        return repr(case)


LAZY_SRC = '''
from typing import Generator
from taskchain import Task, Parameter
from taskchain.data import GeneratedDataLazy

RUNS = []
NESTED = {"at": None, "call": None}      # while the rows of one configuration are being produced, another one is computed

class Items(Task):
    class Meta:
        data_class = GeneratedDataLazy
        parameters = [Parameter("n")]
    def run(self, n) -> Generator:
        RUNS.append("items")
        for i in range(n):
            if NESTED["at"] == (n, i):
                NESTED["at"] = None
                NESTED["call"]()
            yield {"i": i, "s": "x" * (i % 3)}

class Total(Task):              # two readers of the lazy value, the first stops early
    class Meta:
        input_tasks = [Items]
    def run(self, items) -> dict:
        first = next(iter(items()), None)
        return {"first": first, "all": list(items()), "again": len(list(items()))}
'''


class LazySequences(Suite):
    """a generated sequence stored by GeneratedDataLazy (the value is a function that opens the stored sequence): every
    call of the value reads the whole sequence - twice in a row, after a reader that stopped early, through a consumer
    task, from a later chain and in a new process.  Runtime check only."""
    name = 'lazy_sequences'
    model = ''

    def gen(self, rng, tier):
        # nested: while the sequence of one configuration is written, the same task of another configuration (another n) is
        # computed and stored - by the body of the generator itself, as a stand-in for two chains working at overlapping times
        return [dict(n=n) for n in (0, 1, 5, 120)] + [dict(n=5, nested=3, at=2), dict(n=120, nested=7, at=100), dict(n=4, nested=6, at=0)]

    def run_impl(self, case):
        from .c05 import in_child
        tmp = tempfile.mkdtemp(prefix='tcverif-c06l-')
        old = os.getcwd()
        try:
            os.chdir(tmp)
            name = 'tcv_dyn_c06l'
            m = types.ModuleType(name)
            sys.modules[name] = m
            exec(compile(LAZY_SRC, name, 'exec'), m.__dict__)
            for c in (m.Items, m.Total):
                c.__module__ = name

            def chain(n=None):
                from taskchain import Config
                return Config(Path('data'), name='cfg', data={'tasks': [m.Items, m.Total], 'n': case['n'] if n is None else n}).chain()
            inner = {}
            if case.get('nested') is not None:
                def call():
                    inner['rows'] = list(chain(case['nested'])['items'].value())
                m.NESTED['at'], m.NESTED['call'] = (case['n'], case['at']), call

            def reads(v):
                it = iter(v())
                head = next(it, None)
                return dict(head=head, full=list(v()), second=list(v()))

            def scenario():
                ch = chain()
                computing = reads(ch['items'].value)
                total = ch['total'].value
                later = reads(chain()['items'].value)
                out = dict(computing=computing, total=total, later=later, total_later=chain()['total'].value, runs=list(m.RUNS),
                           child=in_child(lambda: dict(r=reads(chain()['items'].value))))
                if case.get('nested') is not None:
                    out['inner'] = inner.get('rows')
                    out['inner_later'] = list(chain(case['nested'])['items'].value())
                return out
            return in_child(scenario)
        finally:
            os.chdir(old)
            sys.modules.pop('tcv_dyn_c06l', None)
            shutil.rmtree(tmp, ignore_errors=True)

    def oracle(self, case, obs):
        if 'unexpected_exception' in obs:
            return f'unexpected exception {obs["unexpected_exception"]}: {obs["text"]}'
        if 'child_error' in obs:
            return f'{case}: {obs["child_error"]}'
        want = [{'i': i, 's': 'x' * (i % 3)} for i in range(case['n'])]
        r = dict(head=want[0] if want else None, full=want, second=want)
        for who, got in (('the computing chain', obs['computing']), ('a later chain', obs['later']), ('a new process', obs['child'].get('r'))):
            if got != r:
                return (f'{case}: reading the lazy value in {who} gives head={str((got or {}).get("head"))[:60]}, '
                        f'{len((got or {}).get("full", []))} items, then {len((got or {}).get("second", []))} items; the sequence has {len(want)}')
        t = dict(first=r['head'], all=want, again=len(want))
        if obs['total'] != t or obs['total_later'] != t:
            return f'{case}: the consumer saw {str(obs["total"])[:200]}; the sequence has {len(want)} items'
        if case.get('nested') is not None:
            wi = [{'i': i, 's': 'x' * (i % 3)} for i in range(case['nested'])]
            if obs.get('inner') != wi or obs.get('inner_later') != wi:
                return (f'{case}: the configuration computed in between has {len(wi)} rows; it yielded {len(obs.get("inner") or [])} '
                        f'then, and a later chain loads {len(obs.get("inner_later") or [])}')
            if obs['runs'] != ['items', 'items']:
                return f'{case}: runs {obs["runs"]}'
            return None
        if obs['runs'] != ['items']:
            return f'{case}: runs {obs["runs"]}'
        return None

    def nontrivial(self, case, obs):
        return case['n'] > 0

    def key(self, case):
        return repr(case)


class C06(Prop):
    pid = 'C06'
    level = 'other'
    suites = [Framing(), RoundTrips(), Replaced(), LazySequences()]
    explanation = ('proof of the framing and guard logic taskchain adds around the serializers (json-lines framing, value '
                   'guard, numeric file order, load purity) + translation validation of the serializers themselves: every '
                   'data class, computing chain vs later chain in a fresh process, type-/dtype-/shape-/order-sensitive comparison')
    trusted_base = ['orjson, numpy, pandas/pickle are exercised, not verified: the theorems assume items without raw newline '
                    'and without leading/trailing whitespace, which is what orjson.dumps produces']
    assumptions = ['string keys, finite floats, integers within the 64-bit range orjson accepts; values outside the storable '
                   'domain that the serializer rejects at save time are not round-trip cases']


PROP = C06()
