"""C17 - parallel_map equals map whatever the scheduling; chunked."""
import os
import threading
import time

from ..core import Prop, Suite
from ..coqlit import cZ, cbool, clist, cnat, cpair, cinl, cinr

os.environ.setdefault('TQDM_DISABLE', '1')


def zlist(xs):
    return clist([cZ(x) for x in xs])


class Chunked(Suite):
    name = 'chunked'
    imports = 'Par'
    in_type = '(nat * list Z)'
    out_type = 'list (list Z)'
    eq_dec = '(list_eq_dec Z_list_eq_dec)'
    model = '(fun c : nat * list Z => chunked (fst c) (snd c))'

    def corpus(self):
        return [dict(n=3, xs=[], kind='list'), dict(n=1, xs=[5], kind='gen'), dict(n=0, xs=[1, 2], kind='list'),
                dict(n=2, xs=[1, 2, 3, 4], kind='str'), dict(n=2, xs=[1, 2, 3, 4, 5], kind='gen'),
                dict(n=2, xs=[1, 2, 3, 4, 5], kind='list', keep=True), dict(n=3, xs=[1, 2, 3], kind='gen', keep=True),
                dict(n=1, xs=[7, 8, 9], kind='tuple', keep=True), dict(n=4, xs=list(range(40, 52)), kind='str', keep=True)]

    def gen(self, rng, tier):
        out = []
        for _ in range(300 if tier == 'quick' else 3000):
            n = rng.choice([0, 1, 1, 2, 2, 3, 4, 5, 7, 10])
            ln = rng.choice([0, 1, n, 2 * n, 3 * n, max(n - 1, 0), n + 1, 2 * n + 1, rng.randrange(0, 60)])
            out.append(dict(n=n, xs=[rng.randrange(32, 127) for _ in range(ln)],
                            kind=rng.choice(['list', 'gen', 'str', 'tuple']), keep=rng.random() < 0.3))
        return out

    def run_impl(self, case):
        from taskchain.utils.iter import chunked
        xs = case['xs']
        it = {'list': lambda: list(xs), 'gen': lambda: (x for x in xs), 'tuple': lambda: tuple(xs),
              'str': lambda: ''.join(chr(x) for x in xs)}[case['kind']]()
        import itertools
        # never more chunks than items (+ slack): a chunker that does not stop must not hang the check
        if case.get('keep'):
            # a consumer that keeps every chunk it was handed until the end (looking ahead, batching the batches)
            kept = list(itertools.islice(chunked(it, case['n']), len(xs) + 4))
            res = [list(c) for c in kept]
        else:
            res = [list(c) for c in itertools.islice(chunked(it, case['n']), len(xs) + 4)]
        if case['kind'] == 'str':
            res = [[ord(ch) for ch in c] for c in res]
        return res

    def encode(self, case, obs):
        o = clist([zlist(c) for c in obs]) if isinstance(obs, list) else '[[(-1)%Z]]'
        return cpair(cnat(case['n']), zlist(case['xs'])), o

    def oracle(self, case, obs):
        n, xs = case['n'], case['xs']
        if not isinstance(obs, list):
            return f'chunked raised: {obs}'
        if [x for c in obs for x in c] != xs:
            return 'concatenation of the chunks is not the input'
        if n >= 1:
            if any(len(c) != n for c in obs[:-1]):
                return 'a chunk other than the last does not have the requested size'
            if obs and not (1 <= len(obs[-1]) <= n):
                return 'last chunk is empty or too long'
        return None

    def nontrivial(self, case, obs):
        return len(case['xs']) > case['n'] >= 1


def feasible_order(rng, m, threads, identity_bias=0.1):
    """A completion order of m submitted jobs that `threads` FIFO workers can produce."""
    if rng.random() < identity_bias:
        return list(range(m))
    running, nxt, order = list(range(min(threads, m))), min(threads, m), []
    while running:
        i = running.pop(rng.randrange(len(running)))
        order.append(i)
        if nxt < m:
            running.append(nxt)
            nxt += 1
    return order


def chunks_of(xs, n):
    if n <= 0:
        return [xs] if xs else []
    return [xs[i:i + n] for i in range(0, len(xs), n)]


def iterable_of(xs, kind):
    """the same items as a list, a tuple, a generator, an iterator or the key view of a mapping"""
    return {'list': lambda: list(xs), 'tuple': lambda: tuple(xs), 'gen': lambda: (x for x in xs),
            'iter': lambda: iter(list(xs)), 'dict_keys': lambda: {x: None for x in xs}.keys()}[kind]()


class Custom(Exception):
    pass


class FalsyError(Exception):        # an exception object that is false in a truth test
    def __bool__(self):
        return False


class EmptyError(Exception):        # an exception object with a length of zero
    def __len__(self):
        return 0


# what f raises: the property speaks of "an exception raised by f", whatever its class
EXC = {'KeyError': KeyError, 'StopIteration': StopIteration, 'Custom': Custom, 'OSError': OSError,
       'RuntimeError': RuntimeError, 'NotImplementedError': NotImplementedError, 'FalsyError': FalsyError, 'EmptyError': EmptyError}


class PMap(Suite):
    name = 'parallel_map'
    case_timeout = 10
    imports = 'Par'
    shard = 150
    in_type = '(list Z * nat * bool * nat * list (list nat) * (Z * Z) * list Z)'
    out_type = '(list Z + Z)'
    eq_dec = '(sum_eq_dec Z_list_eq_dec Z.eq_dec)'
    prelude = '''
Definition sum_eq_dec {A B} (da : forall a b : A, {a = b} + {a <> b}) (db : forall a b : B, {a = b} + {a <> b})
  : forall a b : A + B, {a = b} + {a <> b}.
Proof. decide equality. Defined.
Definition canon (n : nat) (r : list Z) : list Z := concat (map (isort Z.leb) (chunked n r)).
Definition pm_model (c : list Z * nat * bool * nat * list (list nat) * (Z * Z) * list Z) : list Z + Z :=
  let '(xs, threads, sort, n, orders, (a, b), fails) := c in
  let f := fun x : Z => if existsb (Z.eqb x) fails then inr x else inl (a * x + b)%Z in
  match parallel_map_exc f threads sort n orders xs with
  | inl r => inl (if sort then r else canon n r)
  | inr e => inr e
  end.
'''
    model = 'pm_model'

    def corpus(self):
        return [
            dict(xs=[], threads=2, sort=True, chunksize=3, orders=[], a=2, b=1, fails=[], which='threading'),
            dict(xs=[7, 3, 5], threads=3, sort=True, chunksize=1000, orders=[[2, 1, 0]], a=2, b=1, fails=[],
                 which='threading'),
            dict(xs=[7, 3, 5], threads=3, sort=True, chunksize=0, orders=[[2, 0, 1]], a=1, b=0, fails=[],
                 which='iter'),
            dict(xs=[7, 3, 5, 9], threads=2, sort=True, chunksize=2, orders=[[1, 0], [1, 0]], a=1, b=0,
                 fails=[9], which='threading'),
            # f raises RuntimeError / a subclass of it
            dict(xs=[7, 3, 5, 9], threads=2, sort=True, chunksize=2, orders=[[0, 1], [1, 0]], a=1, b=0, fails=[5], which='threading',
                 exc='RuntimeError'),
            dict(xs=[7, 3, 5], threads=3, sort=True, chunksize=1000, orders=[[2, 1, 0]], a=1, b=0, fails=[7], which='threading',
                 exc='NotImplementedError'),
            # the progress-bar hint `total` smaller than, larger than and equal to the number of elements
            dict(xs=[7, 3, 5, 9, 1], threads=2, sort=True, chunksize=2, orders=[[0, 1], [1, 0], [0]], a=1, b=0, fails=[], which='threading',
                 total=3),
            dict(xs=[7, 3, 5], threads=1, sort=True, chunksize=1000, orders=[[0, 1, 2]], a=1, b=0, fails=[], which='threading', total=0,
                 kind='gen'),
            dict(xs=[7, 3, 5], threads=3, sort=False, chunksize=2, orders=[[1, 0], [0]], a=2, b=1, fails=[], which='threading', total=9),
            # f returns exception objects as values
            dict(xs=[7, 3, 5], threads=2, sort=True, chunksize=0, orders=[[1, 0, 2]], a=1, b=0, fails=[], which='iter',
                 returned_errors=[3]),
            dict(xs=[7, 3, 5], threads=3, sort=True, chunksize=2, orders=[[1, 0], [0]], a=1, b=0, fails=[], which='threading',
                 returned_errors=[5, 7]),
            # chunks smaller than the pool, later chunks ready at once, no sorting: order within chunks only
            dict(xs=[0, 10, 20], threads=3, sort=False, chunksize=1, orders=[[0], [0], [0]], a=1, b=0, fails=[],
                 which='threading', prerelease=True),
            dict(xs=[0, 10, 20, 30, 40], threads=4, sort=False, chunksize=2, orders=[[1, 0], [0, 1], [0]], a=1, b=0, fails=[],
                 which='threading', prerelease=True),
            # f raises StopIteration (a bare next() on an exhausted iterator inside f)
            dict(xs=[7, 3, 5], threads=2, sort=True, chunksize=1000, orders=[[0, 1, 2]], a=1, b=0,
                 fails=[3], which='threading', exc='StopIteration'),
            dict(xs=[7, 3, 5], threads=2, sort=True, chunksize=0, orders=[[0, 1, 2]], a=1, b=0,
                 fails=[3], which='iter', exc='StopIteration'),
            dict(xs=[7, 3, 5], threads=1, sort=True, chunksize=1000, orders=[[0, 1, 2]], a=1, b=0,
                 fails=[3], which='threading', exc='StopIteration'),
            # one thread, in both implementations, every kind of exception, failing at the first, a middle and the last element
            *[dict(xs=[7, 3, 5], threads=1, sort=True, chunksize=(0 if w == 'iter' else 1000), orders=[[0, 1, 2]], a=1, b=0,
                   fails=[f], which=w, exc=e) for w in ('iter', 'threading') for e in sorted(EXC) for f in (7, 3, 5)],
            # the iterable is a string (of several characters, of one, empty)
            *[dict(xs=xs, threads=t, sort=True, chunksize=(0 if w == 'iter' else 1000), orders=[list(range(len(xs)))] if xs else [], a=2, b=1,
                   fails=[], which=w, kind='str') for w in ('threading', 'iter') for t in (1, 2) for xs in ([97, 98, 99, 100, 101], [120], [])],
            # every kind of exception, without sorting, with threads
            *[dict(xs=[7, 3, 5, 9], threads=2, sort=False, chunksize=2, orders=[[1, 0], [0, 1]], a=1, b=0,
                   fails=[f], which='threading', exc=e) for e in sorted(EXC) for f in (3, 9)],
        ]

    def gen(self, rng, tier):
        out = []
        for _ in range(120 if tier == 'quick' else 1500):
            which = rng.choice(['threading', 'threading', 'iter'])
            threads = rng.choice([1, 2, 2, 3, 4, 5])
            chunksize = 0 if which == 'iter' else rng.choice([1, 2, 3, 4, 5, 7, 1000])
            base = chunksize if 0 < chunksize < 100 else 4
            ln = rng.choice([0, 1, base, 2 * base, base + 1, 2 * base - 1, rng.randrange(0, 25)])
            xs = rng.sample(range(-50, 200), ln)
            chunks = chunks_of(xs, chunksize)
            orders = [feasible_order(rng, len(c), threads) for c in chunks]
            fails = []
            if xs and rng.random() < 0.2:
                fails = [rng.choice(xs)]
            sort = True if which == 'iter' else rng.random() < 0.75
            extra = {}
            if which == 'threading' and rng.random() < 0.25:
                # `total` is a hint for the progress bar: exact, too small, too large, zero
                extra['total'] = rng.choice([len(xs), max(len(xs) - 2, 0), len(xs) + 3, 0, 1])
            if xs and not fails and rng.random() < 0.15:
                extra['returned_errors'] = rng.sample(xs, min(len(xs), rng.choice([1, 2])))
            if len(chunks) > 1 and threads > 1 and rng.random() < 0.3:
                extra['prerelease'] = True
            out.append(dict(extra, xs=xs, threads=threads, sort=sort, chunksize=chunksize, orders=orders,
                            a=rng.choice([1, 2, -3]), b=rng.randrange(-5, 6), fails=fails, which=which,
                            exc=rng.choice(sorted(EXC)) if fails else 'KeyError',
                            kind=rng.choice(['list', 'list', 'tuple', 'gen', 'iter', 'dict_keys'])))
        return out

    def run_impl(self, case):
        xs, fails = case['xs'], set(case['fails'])
        returned_errors = set(case.get('returned_errors', []))
        a, b = case['a'], case['b']
        chunks = chunks_of(xs, case['chunksize'])
        release = {x: threading.Event() for x in xs}
        done = {x: threading.Event() for x in xs}
        stop = threading.Event()
        calls, lock = [], threading.Lock()

        def f(x):
            release[x].wait(20)
            with lock:
                calls.append(x)
            try:
                if x in fails:
                    raise EXC[case.get('exc', 'KeyError')](x)
                if x in returned_errors:
                    return Custom(a * x + b)      # an exception object as an ordinary result (a validator's verdict)
                return a * x + b
            finally:
                done[x].set()

        def controller():
            for chunk, order in zip(chunks, case['orders']):
                for i in order:
                    x = chunk[i]
                    release[x].set()
                    while not done[x].wait(0.02):
                        if stop.is_set():
                            return
                    time.sleep(0.0008)  # let the future's completion callback reach the event loop

        if case.get('prerelease'):
            # the elements of all chunks but the first may finish the moment they are submitted
            for chunk in chunks[1:]:
                for x in chunk:
                    release[x].set()
        ctl = threading.Thread(target=controller, daemon=True)
        ctl.start()
        # a string is an iterable of its characters like any other (the items are the code points then)
        if case.get('kind') == 'str':
            items, fun = ''.join(chr(x) for x in xs), (lambda c: f(ord(c)))
        else:
            items, fun = iterable_of(xs, case.get('kind', 'list')), f
        try:
            if case['which'] == 'threading':
                from taskchain.utils.threading import parallel_map
                extra = {} if case.get('total') is None else {'total': case['total']}
                res = parallel_map(fun, items, threads=case['threads'], sort=case['sort'],
                                   use_tqdm=False, chunksize=case['chunksize'], **extra)
            else:
                from taskchain.utils.iter import parallel_map
                res = parallel_map(fun, items, threads=case['threads'])
            out = dict(result=[r.args[0] if isinstance(r, Custom) else r for r in res],
                       wrapped=sorted(x for x, r in zip(xs, res) if isinstance(r, Custom)) if case['sort'] else None)
        except tuple(EXC.values()) as e:
            out = dict(error=e.args[0], error_type=type(e).__name__)
        finally:
            stop.set()
            for ev in release.values():
                ev.set()
            ctl.join(5)
        out['calls'] = sorted(calls)
        return out

    def canon(self, case, res):
        if case['sort']:
            return res
        return [y for c in chunks_of(res, case['chunksize']) for y in sorted(c)]

    def encode(self, case, obs):
        i = cpair(zlist(case['xs']), cnat(case['threads']), cbool(case['sort']), cnat(case['chunksize']),
                  clist([clist([cnat(j) for j in o]) for o in case['orders']]),
                  cpair(cZ(case['a']), cZ(case['b'])), zlist(case['fails']))
        if 'result' in obs:
            o = cinl(zlist(self.canon(case, obs['result'])))
        elif 'error' in obs:
            o = cinr(cZ(obs['error']))
        else:
            o = cinr(cZ(-999999))
        return i, o

    def oracle(self, case, obs):
        xs, a, b = case['xs'], case['a'], case['b']
        fails = set(case['fails']) & set(xs)
        if 'unexpected_exception' in obs:
            return f'unexpected exception {obs["unexpected_exception"]}: {obs["text"]}'
        if fails:
            if 'error' not in obs:
                return 'an exception raised by f was not propagated'
            if obs['error'] not in fails or obs.get('error_type', 'KeyError') != case.get('exc', 'KeyError'):
                return f'propagated exception {obs.get("error_type")}({obs["error"]}) is not one raised by f'
            if len(set(obs['calls'])) != len(obs['calls']):
                return f'f was called more than once for an element although it raised: calls={obs["calls"]}'
            return None
        if 'result' not in obs:
            return 'raised although f never raises'
        want = [a * x + b for x in xs]
        if case['sort']:
            if obs['result'] != want:
                return f'result {obs["result"]} differs from map f xs {want} under completion orders {case["orders"]}'
        else:
            if self.canon(case, obs['result']) != self.canon(case, want):
                return 'sort=False result is not a chunk-wise permutation of map f xs'
        if case['sort'] and obs.get('wrapped') != sorted(set(case.get('returned_errors', [])) & set(xs)):
            return f'the results that are exception objects are those of {obs.get("wrapped")}, f returned them for {case.get("returned_errors", [])}'
        if obs['calls'] != sorted(xs):
            return f'f was not called exactly once per element: calls={obs["calls"]}'
        return None

    def nontrivial(self, case, obs):
        return case['threads'] > 1 and any(o != sorted(o) for o in case['orders'])

    def distribution(self, cases, obs):
        d = {}
        for c in cases:
            k = f"{c['which']}/threads={'1' if c['threads'] == 1 else '>1'}/sort={c['sort']}/fails={bool(c['fails'])}"
            d[k] = d.get(k, 0) + 1
        d['out_of_order_chunks'] = sum(1 for c in cases for o in c['orders'] if o != sorted(o))
        d['len_hist'] = {str(k): sum(1 for c in cases if len(c['xs']) // 5 == k) for k in range(6)}
        return d


class RepeatedElements(Suite):
    """inputs that hold equal elements, also equal across types (1, 1.0, True; 'a' twice), in the same chunk and in
    different ones: the result is [f(x) for x in xs] for an f that tells the types apart, and f is called once per
    element, not once per distinct value.  Runtime check only (the interleaving suite uses distinct integers)."""
    name = 'repeated_elements'
    model = ''
    INPUTS = [['a', 'b', 'a'], [1, 2, 1.0, 3, True], [0, False, 0.0, '0'], [5, 5, 5, 5, 5], ['x'], [1, '1', 1]]

    def gen(self, rng, tier):
        return [dict(xs=i, which=w, threads=t, chunksize=c, sort=s) for i in range(len(self.INPUTS)) for w in ('threading', 'iter')
                for t in (1, 2, 3) for c, s in ((2, True), (1000, True), (2, False)) if not (w == 'iter' and (c != 2 or not s))]

    def run_impl(self, case):
        import threading
        xs = self.INPUTS[case['xs']]
        calls, lock = [], threading.Lock()

        def f(x):
            with lock:
                calls.append(repr(x))
            return f'{type(x).__name__}:{x}'
        if case['which'] == 'threading':
            from taskchain.utils.threading import parallel_map
            res = parallel_map(f, list(xs), threads=case['threads'], sort=case['sort'], use_tqdm=False, chunksize=case['chunksize'])
        else:
            from taskchain.utils.iter import parallel_map
            res = parallel_map(f, list(xs), threads=case['threads'])
        return dict(res=res, calls=sorted(calls))

    def oracle(self, case, obs):
        if 'unexpected_exception' in obs:
            return f'unexpected exception {obs["unexpected_exception"]}: {obs["text"]}'
        xs = self.INPUTS[case['xs']]
        want = [f'{type(x).__name__}:{x}' for x in xs]
        got = obs['res'] if case['sort'] else None
        if case['sort'] and got != want:
            return f'{case}: parallel_map over {xs} gives {got}, map gives {want}'
        if not case['sort'] and sorted(obs['res']) != sorted(want):
            return f'{case}: parallel_map over {xs} gives {obs["res"]}, not a rearrangement of {want}'
        if obs['calls'] != sorted(repr(x) for x in xs):
            return f'{case}: f was called for {obs["calls"]}; the input is {xs}'
        return None

    def nontrivial(self, case, obs):
        return True

    def key(self, case):
        return repr(case)


class C17(Prop):
    pid = 'C17'
    suites = [Chunked(), PMap(), RepeatedElements()]
    trusted_base = [
        'the scheduler is modelled as "any order in which the futures of one chunk complete"; the thread pool, '
        'asyncio event loop and GIL themselves are not modelled (partial)',
        'harness controller that dictates completion order through per-element events',
    ]
    assumptions = ['f is a function (no shared mutable state between calls)',
                   'completion order observed by as_completed is the order in which the harness lets calls finish']


PROP = C17()
