"""C16 - `cached` keys identify the call, not how it was written."""
import inspect
import shutil
import tempfile
from pathlib import Path
import json

from ..core import Prop, Suite
from ..coqlit import cZ, cbool, clist, cnat, copt, cpair, cstr, cvalue

VALUES = [1, 1.0, True, '1', None, 0, False, '', [1], [1.0], {'k': 1}, {'k': True}, {'b': 1, 'a': [2]}, 'x', 2, -3, 2.5,
          {'lr': 0.1, 'batch': 32, 'opt': {'name': 'sgd', 'm': 0.9}}, [{'z': 1, 'y': 2}]]
NAMES = ['a', 'b', 'c', 'd', 'e', 'f']


def canon_py(v):
    if isinstance(v, dict):
        return {k: canon_py(v[k]) for k in sorted(v)}
    if isinstance(v, list):
        return [canon_py(x) for x in v]
    return v


def gen_sig(rng):
    n = rng.choice([0, 1, 2, 2, 3, 3, 4, 5, 6])
    names = rng.sample(NAMES, n)
    n_pos = rng.randrange(0, n + 1)
    sig, seen_default = [], False
    for i, nm in enumerate(names):
        kind = 'pos' if i < n_pos else 'kw'
        if kind == 'pos':
            has_default = seen_default or rng.random() < 0.4
            seen_default = seen_default or has_default
        else:
            has_default = rng.random() < 0.5
        sig.append(dict(name=nm, kind=kind, default=[rng.choice(VALUES)] if has_default else None))
    return sig


def make_method(sig, tag):
    params = ['self']
    pos = [p for p in sig if p['kind'] == 'pos']
    kw = [p for p in sig if p['kind'] == 'kw']
    defaults = {}
    for p in pos:
        if p['default'] is not None:
            defaults[p['name']] = p['default'][0]
            params.append(f"{p['name']}=_D[{p['name']!r}]")
        else:
            params.append(p['name'])
    if kw:
        params.append('*')
    for p in kw:
        if p['default'] is not None:
            defaults[p['name']] = p['default'][0]
            params.append(f"{p['name']}=_D[{p['name']!r}]")
        else:
            params.append(p['name'])
    body = '{' + ', '.join(f"{p['name']!r}: {p['name']}" for p in sig) + '}'
    src = f"def m({', '.join(params)}):\n    return self._ran({tag!r}, {body})\n"
    ns = {'_D': defaults}
    exec(src, ns)
    return ns['m']


def reorder(v, rng):
    """the same JSON value with the keys of every mapping in another insertion order"""
    if isinstance(v, list):
        return [reorder(x, rng) for x in v]
    if isinstance(v, dict):
        ks = list(v)
        rng.shuffle(ks)
        return {k: reorder(v[k], rng) for k in ks}
    return v


def gen_call(rng, sig, pool):
    """A random spelling of a binding drawn from a small pool (so that bindings repeat)."""
    binding = {k: reorder(v, rng) for k, v in rng.choice(pool).items()}
    pos = [p for p in sig if p['kind'] == 'pos']
    n_posargs = rng.randrange(0, len(pos) + 1)
    args = [binding[p['name']] for p in pos[:n_posargs]]
    rest = [p for p in sig if p['name'] not in {q['name'] for q in pos[:n_posargs]}]
    kwargs = []
    for p in rest:
        v = binding[p['name']]
        if p['default'] is not None and json.dumps(v) == json.dumps(p['default'][0]) and rng.random() < 0.6:
            continue
        kwargs.append([p['name'], v])
    rng.shuffle(kwargs)
    return args, kwargs


def gen_pool(rng, sig):
    pool = []
    for _ in range(rng.choice([1, 2, 3])):
        b = {}
        for p in sig:
            if p['default'] is not None and rng.random() < 0.5:
                b[p['name']] = p['default'][0]
            else:
                b[p['name']] = rng.choice(VALUES)
        pool.append(b)
    if pool and sig and rng.random() < 0.7:  # a neighbour differing in exactly one argument
        b = dict(pool[0])
        k = rng.choice(sig)['name']
        b[k] = rng.choice([v for v in VALUES if json.dumps(v) != json.dumps(b[k])])
        pool.append(b)
    return pool


def csig(sig):
    return clist(['{| p_name := %s; p_kind := %s; p_default := %s |}' % (
        cstr(p['name']), 'PosOrKw' if p['kind'] == 'pos' else 'KwOnly',
        copt(p['default'], lambda d: cvalue(d[0]))) for p in sig])


def ckw(kwargs):
    return clist([cpair(cstr(k), cvalue(v)) for k, v in kwargs])


NOVAL = {'__no_value__': True}


def py_binding(method, args, kwargs):
    ba = inspect.signature(method).bind(None, *args, **dict(kwargs))
    ba.apply_defaults()
    d = dict(ba.arguments)
    d.pop('self')
    return d


class History(Suite):
    name = 'cached_history'
    imports = 'Value Dict Cached'
    shard = 60
    in_type = '(list param * list str * list call)'
    out_type = '(list (option value) * nat * list value)'
    prelude = '''
Definition body (b : list (str * value)) (n : nat) : value :=
  VDict [(lit "binding", canon (VDict b)); (lit "n", VInt (Z.of_nat n))].
Fixpoint ovl_eqb (a b : list (option value)) : bool :=
  match a, b with
  | [], [] => true
  | None :: a', None :: b' => ovl_eqb a' b'
  | Some x :: a', Some y :: b' => value_eqb x y && ovl_eqb a' b'
  | _, _ => false end.
Fixpoint vl_eqb (a b : list value) : bool :=
  match a, b with [], [] => true | x :: a', y :: b' => value_eqb x y && vl_eqb a' b' | _, _ => false end.
Definition out_eqb (a b : list (option value) * nat * list value) : bool :=
  let '(r1, n1, k1) := a in let '(r2, n2, k2) := b in ovl_eqb r1 r2 && Nat.eqb n1 n2 && vl_eqb k1 k2.
Definition hist_model (c : list param * list str * list call) : list (option value) * nat * list value :=
  let '(sig, ignore, calls) := c in
  let '(st, outs) := cached_run body sig ignore {| entries := []; executions := 0 |} calls in
  (outs, executions st, map (fun c => cache_key ignore (bind_cached sig (c_args c) (c_kwargs c))) calls).
'''
    eqb = 'out_eqb'
    model = 'hist_model'

    def corpus(self):
        sig = [dict(name='a', kind='pos', default=None), dict(name='b', kind='pos', default=[1]),
               dict(name='c', kind='kw', default=[True])]
        calls = [dict(args=[5], kwargs=[], force=False, only=False, store=None),
                 dict(args=[5, 1], kwargs=[['c', True]], force=False, only=False, store=None),
                 dict(args=[], kwargs=[['c', True], ['b', 1], ['a', 5]], force=False, only=True, store=None),
                 dict(args=[5], kwargs=[['b', 1.0]], force=False, only=False, store=None),
                 dict(args=[5], kwargs=[], force=True, only=False, store=None),
                 dict(args=[6], kwargs=[], force=False, only=False, store=['given']),
                 dict(args=[6], kwargs=[], force=False, only=False, store=None),
                 dict(args=[7], kwargs=[], force=False, only=False, store=[None]),
                 dict(args=[7], kwargs=[], force=False, only=True, store=None),
                 dict(args=[5], kwargs=[], force=True, only=False, store=[None]),
                 dict(args=[5], kwargs=[], force=False, only=False, store=None)]
        # both control keywords in one call (a look-up that a caller's global `force` flag is forwarded into): it stays a look-up
        both = [dict(args=[1], kwargs=[], force=True, only=True, store=None), dict(args=[1], kwargs=[], force=False, only=False, store=None),
                dict(args=[1], kwargs=[], force=True, only=True, store=None), dict(args=[1], kwargs=[], force=False, only=True, store=None),
                dict(args=[2], kwargs=[['b', 5]], force=True, only=False, store=['given']), dict(args=[2, 5], kwargs=[], force=True, only=True, store=None)]
        return [dict(sig=sig, ignore=[], calls=calls), dict(sig=sig, ignore=['c'], calls=calls),
                dict(sig=sig, ignore=[], calls=calls, cache='json'), dict(sig=sig, ignore=['c'], calls=calls, cache='json'),
                dict(sig=sig, ignore=[], calls=both), dict(sig=sig, ignore=[], calls=both, cache='json')]

    def gen(self, rng, tier):
        out = []
        for _ in range(150 if tier == 'quick' else 3000):
            sig = gen_sig(rng)
            ignore = [p['name'] for p in sig if rng.random() < 0.2]
            pool = gen_pool(rng, sig)
            calls = []
            for _ in range(rng.choice([2, 4, 6, 9])):
                args, kwargs = gen_call(rng, sig, pool)
                r = rng.random()
                only = r < 0.15
                force = 0.15 <= r < 0.27
                store = [rng.choice(VALUES + ['stored'])] if (not only and rng.random() < 0.12) else None
                calls.append(dict(args=args, kwargs=kwargs, force=force, only=only, store=store))
            out.append(dict(sig=sig, ignore=ignore, calls=calls))
            if rng.random() < 0.35:
                out[-1]['cache'] = 'json'      # a file-backed cache given to the decorator
        return out

    def run_impl(self, case):
        from taskchain.cache import cached, InMemoryCache, JsonCache, NO_VALUE
        import shutil, tempfile
        from pathlib import Path
        file_backed = case.get('cache') == 'json'
        tmp = tempfile.mkdtemp(prefix='tcverif-c16-') if file_backed else None

        class Rec(JsonCache if file_backed else InMemoryCache):
            def __init__(self):
                if file_backed:
                    super().__init__(Path(tmp) / 'cache', allow_nones=True)
                else:
                    super().__init__()
                self.keys = []

            def __len__(self):
                if file_backed:
                    return sum(1 for p in self.directory.rglob('*.json') if not p.name.startswith('tmp_'))
                return super().__len__()

            def get(self, key):
                self.keys.append(key)
                return super().get(key)

            def get_or_compute(self, key, computer, force=False):
                self.keys.append(key)
                return super().get_or_compute(key, computer, force=force)

        rec = Rec()
        raw = make_method(case['sig'], 'm')

        class Obj:
            def __init__(self):
                self.count = 0

            def _ran(self, tag, binding):
                self.count += 1
                return {'binding': canon_py(binding), 'n': self.count - 1}

        Obj.m = cached(cache_object=rec, ignore_kwargs=list(case['ignore']))(raw)
        o = Obj()
        results = []
        for c in case['calls']:
            ctl = {}
            if c['force']:
                ctl['force_cache'] = True
            if c['only']:
                ctl['only_cache'] = True
            if c['store'] is not None:
                ctl['store_cache_value'] = c['store'][0]
            r = o.m(*c['args'], **dict(c['kwargs']), **ctl)
            results.append(NOVAL if r is NO_VALUE else [r])
        try:
            return dict(results=results, executions=o.count, keys=[json.loads(k) for k in rec.keys], entries=len(rec))
        finally:
            if tmp:
                shutil.rmtree(tmp, ignore_errors=True)

    def encode(self, case, obs):
        calls = clist(['{| c_args := %s; c_kwargs := %s; c_force := %s; c_only := %s; c_store := %s |}' % (
            clist([cvalue(a) for a in c['args']]), ckw(c['kwargs']), cbool(c['force']), cbool(c['only']),
            copt(c['store'], lambda s: cvalue(s[0]))) for c in case['calls']])
        i = cpair(csig(case['sig']), clist([cstr(s) for s in case['ignore']]), calls)
        if 'results' not in obs:
            return i, '([], 999%nat, [])'
        res = clist(['None' if r == NOVAL else f'(Some {cvalue(r[0])})' for r in obs['results']])
        return i, cpair(res, cnat(obs['executions']), clist([cvalue(k) for k in obs['keys']]))

    def oracle(self, case, obs):
        """Dictionary keyed by Python's own binding of the call (inspect.signature.bind)."""
        if 'unexpected_exception' in obs:
            return f'unexpected exception {obs["unexpected_exception"]}: {obs["text"]}'
        raw = make_method(case['sig'], 'm')
        store, count = {}, 0
        for j, (c, r) in enumerate(zip(case['calls'], obs['results'])):
            b = py_binding(raw, c['args'], c['kwargs'])
            k = json.dumps({n: v for n, v in b.items() if n not in case['ignore']}, sort_keys=True)
            if c['only']:
                want = [store[k]] if k in store else NOVAL
            elif k in store and not c['force']:
                want = [store[k]]
            elif c['store'] is not None:
                store[k] = c['store'][0]
                want = [store[k]]
            else:
                store[k] = {'binding': canon_py(b), 'n': count}
                count += 1
                want = [store[k]]
            if json.dumps(r, sort_keys=True) != json.dumps(want, sort_keys=True):
                return f'call {j} {c} returned {r}, a dictionary keyed by the Python binding gives {want}'
        if obs['executions'] != count:
            return f'method body ran {obs["executions"]} times, expected {count}'
        if obs['entries'] != len(store):
            return f'{obs["entries"]} cache entries, expected {len(store)}'
        return None

    def nontrivial(self, case, obs):
        return len(case['sig']) >= 2 and len(case['calls']) >= 3

    def distribution(self, cases, obs):
        d = dict(arity={}, calls=0, positional_args=0, kw_only_params=0, force=0, only=0, store=0, ignored=0)
        for c in cases:
            d['arity'][str(len(c['sig']))] = d['arity'].get(str(len(c['sig'])), 0) + 1
            d['kw_only_params'] += sum(p['kind'] == 'kw' for p in c['sig'])
            d['ignored'] += len(c['ignore'])
            for k in c['calls']:
                d['calls'] += 1
                d['positional_args'] += len(k['args'])
                d['force'] += k['force']
                d['only'] += k['only']
                d['store'] += k['store'] is not None
        return d


class Methods(Suite):
    """the object's own cache: methods and versions never share entries"""
    name = 'methods_and_versions'
    imports = 'Value Dict Cached'
    shard = 60
    in_type = '(list method * list (nat * list value * list (str * value)))'
    out_type = 'list (option value)'
    prelude = '''
Definition mbody (i : nat) (b : list (str * value)) : value :=
  VDict [(lit "binding", canon (VDict b)); (lit "method", VInt (Z.of_nat i))].
Fixpoint ovl_eqb (a b : list (option value)) : bool :=
  match a, b with
  | [], [] => true
  | None :: a', None :: b' => ovl_eqb a' b'
  | Some x :: a', Some y :: b' => value_eqb x y && ovl_eqb a' b'
  | _, _ => false end.
'''
    eqb = 'ovl_eqb'
    model = '(fun c : list method * list (nat * list value * list (str * value)) => multi_run mbody (fst c) [] (snd c))'

    def gen(self, rng, tier):
        out = []
        for _ in range(60 if tier == 'quick' else 1200):
            sig = gen_sig(rng)
            base = rng.choice(['m', 'load', 'm1'])
            methods = []
            for i in range(rng.choice([2, 3])):
                methods.append(dict(name=rng.choice([base, base + '_x', 'm']),
                                    version=rng.choice([None, None, '1', '2', '1.0', 'x', '', 0]),
                                    sig=sig, ignore=[p['name'] for p in sig if rng.random() < 0.15]))
            # distinct (name, version) pairs only: two methods of one class cannot share both
            seen, ms = set(), []
            for m in methods:
                vkey = None if m['version'] is None else str(m['version'])
                if (m['name'], vkey) not in seen:
                    seen.add((m['name'], vkey))
                    ms.append(m)
            pool = gen_pool(rng, sig)
            calls = []
            for _ in range(rng.choice([3, 5, 8])):
                args, kwargs = gen_call(rng, sig, pool)
                calls.append(dict(m=rng.randrange(len(ms)), args=args, kwargs=kwargs))
            out.append(dict(methods=ms, calls=calls))
        # two implementations of one method name whose versions differ only in characters that are not letters, digits,
        # `_`, `.` or `-`
        for c, (va, vb) in zip(out[:6], [('2024_05', '2024 05'), ('v1+fix', 'v1_fix'), ('a:b', 'a  b'), ('1/2', '1_2'), ('é', 'e'), (' ', '')]):
            first = c['methods'][0]
            ms = [dict(first, name='load', version=va), dict(first, name='load', version=vb)]
            calls = [dict(call, m=i % 2) for i, call in enumerate(c['calls'] + c['calls'])]
            out.append(dict(methods=ms, calls=calls))
        # one decorator object (a project-wide `project_cached = cached(version=..., ignore_kwargs=...)`) applied to several
        # methods of the class: the same version and ignore list, different names
        for c in out[:8]:
            if c.get('shared_decorator') or c['methods'][0]['name'] == 'load':
                continue
            first = c['methods'][0]
            ms = [dict(first, name=f'load_{i}') for i in range(len(c['methods']))]
            out.append(dict(methods=ms, calls=c['calls'] + c['calls'][:2], shared_decorator=True))
        return out

    def run_impl(self, case):
        from taskchain.cache import cached, InMemoryCache

        class Obj:
            def __init__(self):
                self.cache = InMemoryCache()
                self.ran = []

            def _ran(self, tag, binding):
                self.ran.append(tag)
                return {'binding': canon_py(binding), 'method': tag}

        fns = []
        shared = None
        if case.get('shared_decorator'):
            m0 = case['methods'][0]
            shared = cached(ignore_kwargs=list(m0['ignore']), version=m0['version'])
        for i, m in enumerate(case['methods']):
            raw = make_method(m['sig'], i)
            raw.__name__ = m['name']
            fns.append((shared or cached(ignore_kwargs=list(m['ignore']), version=m['version']))(raw))
        o = Obj()
        results = [[fns[c['m']](o, *c['args'], **dict(c['kwargs']))] for c in case['calls']]
        return dict(results=results, ran=o.ran)

    def encode(self, case, obs):
        ms = clist(['{| m_name := %s; m_version := %s; m_sig := %s; m_ignore := %s |}' % (
            cstr(m['name']), copt(None if m['version'] is None else str(m['version']), cstr), csig(m['sig']), clist([cstr(s) for s in m['ignore']]))
            for m in case['methods']])
        calls = clist([cpair(cnat(c['m']), clist([cvalue(a) for a in c['args']]), ckw(c['kwargs']))
                       for c in case['calls']])
        if 'results' not in obs:
            return cpair(ms, calls), '[None]'
        return cpair(ms, calls), clist([f'(Some {cvalue(r[0])})' for r in obs['results']])

    def oracle(self, case, obs):
        if 'unexpected_exception' in obs:
            return f'unexpected exception {obs["unexpected_exception"]}: {obs["text"]}'
        store, ran = {}, []
        for j, (c, r) in enumerate(zip(case['calls'], obs['results'])):
            m = case['methods'][c['m']]
            b = py_binding(make_method(m['sig'], 0), c['args'], c['kwargs'])
            k = (m['name'], m['version'],
                 json.dumps({n: v for n, v in b.items() if n not in m['ignore']}, sort_keys=True))
            if k not in store:
                store[k] = {'binding': canon_py(b), 'method': c['m']}
                ran.append(c['m'])
            if json.dumps(r[0], sort_keys=True) != json.dumps(store[k], sort_keys=True):
                return (f'call {j} of method {m["name"]!r} version {m["version"]!r} returned {r[0]}, '
                        f'entries kept apart per (method, version) give {store[k]}')
        if obs['ran'] != ran:
            return f'bodies ran {obs["ran"]}, expected {ran}'
        return None

    def nontrivial(self, case, obs):
        return len(case['methods']) >= 2 and len({c['m'] for c in case['calls']}) >= 2


PROCESS_SCRIPT = r"""
import json, sys
from taskchain.cache import cached, JsonCache

class Obj:
    def __init__(self, d):
        self.cache = JsonCache(d)
        self.ran = []

    @cached(version='1')
    def load(self, name, limit=10):
        self.ran.append([name, limit])
        return {'name': name, 'limit': limit}

o = Obj(sys.argv[1])
mode = sys.argv[2]
out = []
if mode == 'store':
    o.load('c', store_cache_value={'supplied': True})
for args, kwargs in (([('a')], {}), (['b'], {'limit': 5}), ([], {'name': 'a', 'limit': 10}), (['c'], {})):
    try:
        out.append(o.load(*args, **kwargs, **({'only_cache': True} if mode == 'lookup' else {})))
    except Exception as e:
        out.append('raised ' + type(e).__name__)
print('RESULT ' + json.dumps(dict(out=out, ran=o.ran)))
"""


class LongKeysAndCopies(Suite):
    """bindings whose key text is long (lists of hundreds of ids) and differ only near its end - in the last element, in a
    parameter that sorts after the long one: different entries; and an object copied with copy.copy / __dict__.update after
    its cached method (decorated with the bare @cached) was used: the copy, with a state and a cache of its own, executes
    and stores for itself.  Runtime check only."""
    name = 'long_keys_and_copied_objects'
    model = ''

    def gen(self, rng, tier):
        return [dict(kind='long', n=n, cache=c) for n in (3, 150, 250, 400, 2000) for c in ('memory', 'json')] + \
               [dict(kind='copy', how=h, form=f) for h in ('copy', 'dict_update', 'deepcopy') for f in ('bare', 'called')]

    def run_impl(self, case):
        import copy, shutil, tempfile
        from pathlib import Path
        from taskchain.cache import cached, InMemoryCache, JsonCache
        d = tempfile.mkdtemp(prefix='tcverif-c16l-')
        try:
            if case['kind'] == 'long':
                class Obj:
                    def __init__(self):
                        self.cache = InMemoryCache() if case['cache'] == 'memory' else JsonCache(Path(d) / 'c')
                        self.ran = []

                    @cached()
                    def total(self, ids, mode='sum', *, scale=1):
                        self.ran.append((len(ids), ids[-1], mode, scale))
                        return [sum(ids) * scale, mode, ids[-1]]
                o = Obj()
                ids = list(range(1000, 1000 + case['n']))
                other = ids[:-1] + [7]
                calls = [(ids, {}), (other, {}), (ids, {'mode': 'max'}), (ids, {'scale': 3}), (ids, {}), (other, {}), (ids, {'scale': 3, 'mode': 'sum'})]
                out = [o.total(a, **k) for a, k in calls]
                want = [[sum(a) * k.get('scale', 1), k.get('mode', 'sum'), a[-1]] for a, k in calls]
                return dict(out=out, want=want, ran=len(o.ran))

            class Thing:
                def __init__(self, factor):
                    self.factor = factor
                    self.cache = InMemoryCache()
                    self.ran = []
            def times(self, x):
                self.ran.append(x)
                return self.factor * x
            Thing.times = cached(times) if case['form'] == 'bare' else cached()(times)
            a = Thing(2)
            first = a.times(5)
            if case['how'] == 'copy':
                b = copy.copy(a)
            elif case['how'] == 'deepcopy':
                b = copy.deepcopy(a)
            else:
                b = Thing.__new__(Thing)
                b.__dict__.update(a.__dict__)
            b.factor, b.cache, b.ran = 3, InMemoryCache(), []
            second = b.times(5)
            third = b.times(5, only_cache=True)
            return dict(first=first, second=second, third=third, ran_a=list(a.ran), ran_b=list(b.ran))
        finally:
            shutil.rmtree(d, ignore_errors=True)

    def oracle(self, case, obs):
        if 'unexpected_exception' in obs:
            return f'unexpected exception {obs["unexpected_exception"]}: {obs["text"]}'
        if case['kind'] == 'long':
            if obs['out'] != obs['want'] or obs['ran'] != 4:
                bad = [i for i, (a, b) in enumerate(zip(obs['out'], obs['want'])) if a != b]
                return (f'{case}: calls with a list of {case["n"]} ids: results of calls {bad} are those of other bindings '
                        f'({[obs["out"][i] for i in bad][:2]} instead of {[obs["want"][i] for i in bad][:2]}); {obs["ran"]} executions, 4 bindings')
            return None
        if (obs['first'], obs['second'], obs['third']) != (10, 15, 15) or obs['ran_a'] != [5] or obs['ran_b'] != [5]:
            return (f'{case}: the original (factor 2) gives {obs["first"]}, its copy (factor 3, own cache) gives {obs["second"]} and '
                    f'{obs["third"]} from its cache; executions on the original {obs["ran_a"]}, on the copy {obs["ran_b"]}')
        return None

    def nontrivial(self, case, obs):
        return True

    def key(self, case):
        return repr(case)


class AcrossProcesses(Suite):
    """a cached method whose object keeps a file cache, used by several interpreter processes one after the other (each
    with its own string-hash seed): what one process computed or was given through store_cache_value is an entry for the
    next - it executes nothing for those bindings, and only_cache finds them.  Runtime check only."""
    name = 'file_cache_across_processes'
    model = ''

    def gen(self, rng, tier):
        return [dict(seeds=s) for s in (['1', '2', '3'], ['random', 'random', 'random'], ['0', '0', '7'])]

    def run_impl(self, case):
        import json, os, shutil, subprocess, sys, tempfile
        d = tempfile.mkdtemp(prefix='tcverif-c16p-')
        try:
            outs = []
            for seed, mode in zip(case['seeds'], ('store', 'call', 'lookup')):
                env = dict(os.environ, PYTHONHASHSEED=seed)
                p = subprocess.run([sys.executable, '-c', PROCESS_SCRIPT, d, mode], env=env, capture_output=True, text=True, timeout=120)
                line = next((l for l in p.stdout.splitlines() if l.startswith('RESULT ')), None)
                outs.append(json.loads(line[7:]) if line else dict(error=(p.stderr or '?')[-300:]))
            return dict(outs=outs)
        finally:
            shutil.rmtree(d, ignore_errors=True)

    def oracle(self, case, obs):
        if 'unexpected_exception' in obs:
            return f'unexpected exception {obs["unexpected_exception"]}: {obs["text"]}'
        if any('error' in o for o in obs['outs']):
            return f'{case}: a process failed: {obs["outs"]}'
        values = [{'name': 'a', 'limit': 10}, {'name': 'b', 'limit': 5}, {'name': 'a', 'limit': 10}, {'supplied': True}]
        first, second, third = obs['outs']
        if first['out'] != values or first['ran'] != [['a', 10], ['b', 5]]:
            return f'{case}: the first process yields {first}; expected {values}, executing a/10 and b/5'
        if second['out'] != values or second['ran']:
            return f'{case}: the second process yields {second["out"]} and executes {second["ran"]}; every binding is an entry of the first process'
        if third['out'] != values or third['ran']:
            return f'{case}: only_cache in a third process yields {third["out"]} (executed {third["ran"]}); expected {values}'
        return None

    def nontrivial(self, case, obs):
        return True

    def key(self, case):
        return repr(case)


OVERRIDE_SRC = """
from taskchain.cache import cached, InMemoryCache, JsonCache

class Base:
    def __init__(self, cache):
        self.cache = cache
        self.ran = []
    @cached()
    def compute(self, x):
        self.ran.append('Base.compute')
        return ['base', x]
    @cached()
    def plain(self, x):
        self.ran.append('Base.plain')
        return ['plain', x]
    @cached(version=2)
    def versioned(self, x):
        self.ran.append('Base.versioned')
        return ['base-v2', x]

class Derived(Base):
    @cached()
    def compute(self, x):
        self.ran.append('Derived.compute')
        return ['derived', super().compute(x)]
    @cached(version=2)
    def versioned(self, x):
        self.ran.append('Derived.versioned')
        return ['derived-v2', super().versioned(x)]

class Third(Derived):
    @cached()
    def compute(self, x):
        self.ran.append('Third.compute')
        return ['third', super().compute(x)]
"""


class OverriddenMethods(Suite):
    """cached methods that override cached methods of the same name and call them (super().compute(x)), with the object's
    own cache - in memory or in files: every method returns its own value on every call, each body runs once per binding,
    the inherited method asked directly (super(Derived, d).compute(x)) gives its own value; a method that is not
    overridden keeps the sub-cache named by its bare name.  Runtime check only."""
    name = 'overridden_cached_methods'
    model = ''

    def gen(self, rng, tier):
        return [dict(cls=c, cache=k, method=m) for c in ('Base', 'Derived', 'Third') for k in ('memory', 'json') for m in ('compute', 'versioned')]

    def run_impl(self, case):
        import sys, types
        tmp = tempfile.mkdtemp(prefix='tcverif-over-')
        name = 'tcv_override'
        m = types.ModuleType(name)
        sys.modules[name] = m
        try:
            exec(compile(OVERRIDE_SRC, name, 'exec'), m.__dict__)
            cache = m.InMemoryCache() if case['cache'] == 'memory' else m.JsonCache(tmp)
            o = getattr(m, case['cls'])(cache)
            f = getattr(o, case['method'])
            out = dict(first=f(1), second=f(1), ran=list(o.ran))
            chain = [c for c in type(o).__mro__ if case['method'] in vars(c)]
            out['levels'] = [[c.__name__, getattr(super(chain[i - 1], o), case['method'])(1) if i else f(1)] for i, c in enumerate(chain)]
            out['ran_after'] = list(o.ran)
            out['plain'] = [o.plain(5), o.plain(5)]
            out['dirs'] = sorted(p.name for p in Path(tmp).iterdir()) if case['cache'] == 'json' else None
            return out
        finally:
            sys.modules.pop(name, None)
            shutil.rmtree(tmp, ignore_errors=True)

    def oracle(self, case, obs):
        if 'unexpected_exception' in obs:
            return f'unexpected exception {obs["unexpected_exception"]}: {obs["text"]}'
        tag = {'compute': {'Base': 'base', 'Derived': 'derived', 'Third': 'third'},
               'versioned': {'Base': 'base-v2', 'Derived': 'derived-v2'}}[case['method']]
        order = [c for c in ('Third', 'Derived', 'Base') if c in tag]
        order = order[order.index(case['cls'] if case['cls'] in tag else 'Derived'):]

        def want(i):
            v = 1
            for c in reversed(order[i:]):
                v = [tag[c], v]
            return v
        if obs['first'] != want(0) or obs['second'] != want(0):
            return f'{case}: the calls yield {obs["first"]} and {obs["second"]}; the method computes {want(0)}'
        if sorted(obs['ran']) != sorted(f'{c}.{case["method"]}' for c in order) or obs['ran_after'] != obs['ran']:
            return f'{case}: bodies run: {obs["ran_after"]}; each of {order} runs once for the binding x=1'
        for i, (c, v) in enumerate(obs['levels']):
            if v != want(i):
                return f'{case}: the method of {c}, asked directly, yields {v}; it computes {want(i)} (another method of the same name stored its value there)'
        if obs['plain'] != [['plain', 5]] * 2:
            return f'{case}: plain yields {obs["plain"]}'
        if obs['dirs'] is not None:
            # Model/Cached.v `method_id` / `subcache_name`: the bare name, or <class>.<method> when the name is defined more
            # than once in the classes of the object; the version follows after a dot
            ver = '.2' if case['method'] == 'versioned' else ''
            names = [f'{c}.{case["method"]}{ver}' for c in order] if len(order) > 1 else [f'{case["method"]}{ver}']
            if sorted(obs['dirs']) != sorted(names + ['plain']):
                return f'{case}: the sub-caches are {obs["dirs"]}; by the naming rule they are {sorted(names + ["plain"])}'
        if obs['dirs'] is not None and 'plain' not in obs['dirs']:
            return f'{case}: the entries of the method `plain`, which is not overridden, are kept in {obs["dirs"]}, not under its name'
        return None

    def nontrivial(self, case, obs):
        return case['cls'] != 'Base'

    def key(self, case):
        return repr(case)


class C16(Prop):
    pid = 'C16'
    suites = [History(), Methods(), AcrossProcesses(), LongKeysAndCopies(), OverriddenMethods()]
    trusted_base = ['json.dumps(sort_keys=True) of the standard library is injective on JSON-distinguishable values '
                    'and insensitive to dict insertion order (the model key is the value the key text denotes)']
    assumptions = ['calls are valid Python calls of the undecorated method; argument values are JSON-like with '
                   'string keys; method names contain no "."']


PROP = C16()
