"""C10 - task names resolve uniquely or not at all."""
import itertools

from ..core import Prop, Suite
from ..suites_chain import ChainBuild
from ..coqlit import cbool, clist, cpair, cstr, copt

COMPS = ['a', 'aa', 'n', 'xn', 'g', 'xg', 'b', 'é']


def parse(full):
    parts = full.split('::')
    ns, local = parts[:-1], parts[-1]
    gs = local.split(':')
    return ns, gs[:-1], gs[-1]


def wellformed(full):
    if ':::' in full:
        return False
    ns, gs, n = parse(full)
    return all(c and ':' not in c for c in ns + gs + [n])


def ref_match(q, f, det):
    qns, qg, qn = parse(q)
    fns, fg, fn = parse(f)
    if (qns or not det) and qns != fns:
        return False
    if qg + [qn] == fg + [fn]:
        return True
    return bool(fg) and not qg and fn == qn


def is_suffix(a, b):
    return len(a) <= len(b) and b[len(b) - len(a):] == a


def ref_resolve(q, tasks, det):
    ms = [t for t in tasks if ref_match(q, t, det)]
    if len(ms) == 1:
        return ms[0]
    if not ms:
        return None
    for c in ms:
        cns, cg, cn = parse(c)
        if all(is_suffix(cns, parse(t)[0]) and is_suffix(cg + [cn], parse(t)[1] + [parse(t)[2]]) for t in ms):
            return c
    return None


def render(ns, gs, n):
    return '::'.join(ns + [':'.join(gs + [n])])


def short_forms(full):
    ns, gs, n = parse(full)
    out = {full, render([], gs, n), render(ns, [], n), n}
    return sorted(out)


class Find(Suite):
    name = 'find_task_full_name'
    imports = 'Names'
    in_type = '(bool * str * list str)'
    out_type = 'option str'
    eq_dec = '(option_eq_dec str_eq_dec)'
    model = ('(fun c : bool * str * list str => let \'(d, q, ts) := c in '
             'match find_task_full_name d q ts with inl s => Some s | inr _ => None end)')
    shard = 400

    def corpus(self):
        return [
            dict(det=True, q='a', tasks=['n::a', 'xn::a'], via='fn'),
            dict(det=True, q='a', tasks=['g:a', 'xg:a'], via='fn'),
            dict(det=True, q='ns::a', tasks=['ns::a', 'ns::g:a'], via='fn'),
            dict(det=False, q='ns::a', tasks=['ns::a', 'ns::g:a'], via='fn'),
            dict(det=True, q='a', tasks=['a', 'g:a', 'n::a', 'n::g:a'], via='chain'),
            dict(det=True, q='a', tasks=['n::a', 'g:a'], via='inputs'),
            dict(det=True, q='a', tasks=['aa'], via='fn'),
            dict(det=True, q='g:a', tasks=['xg:g:a', 'g:a'], via='fn'),
        ]

    def gen(self, rng, tier):
        out = []
        n_sets = 250 if tier == 'quick' else 6000
        for _ in range(n_sets):
            pool = rng.sample(COMPS, rng.choice([2, 3, 3, 4]))
            names = set()
            for _ in range(rng.choice([1, 2, 3, 4, 5, 6])):
                ns = [rng.choice(pool) for _ in range(rng.choice([0, 0, 1, 1, 2]))]
                gs = [rng.choice(pool) for _ in range(rng.choice([0, 0, 1, 1, 2]))]
                names.add(render(ns, gs, rng.choice(pool)))
            tasks = sorted(names)
            rng.shuffle(tasks)
            queries = set()
            for t in tasks:
                queries.update(short_forms(t))
            queries.add(rng.choice(pool))
            queries.add(render([rng.choice(pool)], [], rng.choice(pool)))
            qs = sorted(queries)
            rng.shuffle(qs)
            for q in qs[:rng.choice([2, 4, 8])]:
                det = rng.random() < 0.7
                out.append(dict(det=det, q=q, tasks=tasks, via=rng.choice(['fn', 'fn', 'chain', 'inputs']) if det
                                else 'fn'))
                if rng.random() < 0.4:
                    # the same question in the other mode (lookup from a chain vs. from a dependant), right afterwards:
                    # an answer must not depend on what was asked before
                    out.append(dict(det=not det, q=q, tasks=tasks, via='fn'))
                    out.append(dict(det=det, q=q, tasks=tasks, via='fn'))
            if len(tasks) <= 4 and rng.random() < 0.3:  # all declaration orders for small sets
                q = qs[0]
                for perm in itertools.permutations(tasks):
                    out.append(dict(det=True, q=q, tasks=list(perm), via='fn'))
        # malformed stream: empty components, stray colons
        bad = ['', ':', '::', ':::', 'a:', ':a', 'a::', '::a', 'a:::b', 'n::::a', 'g::a:b', 'a::b:']
        for _ in range(40 if tier == 'quick' else 600):
            tasks = rng.sample(bad + ['a', 'n::a', 'g:a'], rng.choice([1, 2, 3]))
            out.append(dict(det=rng.random() < 0.5, q=rng.choice(bad + ['a', 'n::a']), tasks=tasks, via='fn'))
        return out

    def run_impl(self, case):
        from taskchain.task import _find_task_full_name, InputTasks
        from taskchain.chain import Chain
        q, tasks, det, via = case['q'], case['tasks'], case['det'], case['via']
        if via == 'fn':
            try:
                return dict(found=_find_task_full_name(q, list(tasks), determine_namespace=det))
            except KeyError:
                return dict(found=None)
        objs = {t: ('obj', t) for t in tasks}
        if via == 'chain':
            c = Chain.__new__(Chain)
            c.tasks = dict(objs)
        else:
            c = InputTasks()
            for t in tasks:
                c[t] = objs[t]
        contains = q in c
        try:
            got = c[q]
            found = got[1] if got is not None else 'NONE-RETURNED'
        except KeyError:
            found = None
        return dict(found=found, contains=contains)

    def encode(self, case, obs):
        i = cpair(cbool(case['det']), cstr(case['q']), clist([cstr(t) for t in case['tasks']]))
        if 'found' not in obs:
            return i, '(Some (lit "<unexpected exception>"))'
        return i, copt(obs['found'], cstr)

    def oracle(self, case, obs):
        if 'unexpected_exception' in obs:
            return f'unexpected exception {obs["unexpected_exception"]}: {obs["text"]}'
        if 'contains' in obs and obs['contains'] != (obs['found'] is not None):
            return f'`in` says {obs["contains"]} but lookup gives {obs["found"]}'
        if not all(wellformed(t) for t in case['tasks']) or not wellformed(case['q']):
            return None
        if len(set(case['tasks'])) != len(case['tasks']):
            return None
        want = ref_resolve(case['q'], case['tasks'], case['det'])
        if obs['found'] != want:
            return (f'query {case["q"]!r} over {case["tasks"]} resolved to {obs["found"]!r}, '
                    f'component-wise rule gives {want!r}')
        return None

    def nontrivial(self, case, obs):
        return sum(1 for t in case['tasks'] if wellformed(t) and wellformed(case['q'])
                   and ref_match(case['q'], t, case['det'])) >= 2

    def distribution(self, cases, obs):
        d = dict(resolved=0, error=0, multi_match=0, malformed=0)
        for c, o in zip(cases, obs):
            d['resolved' if o.get('found') is not None else 'error'] += 1
            if not all(wellformed(t) for t in c['tasks']) or not wellformed(c['q']):
                d['malformed'] += 1
            elif self.nontrivial(c, o):
                d['multi_match'] += 1
        return d


class InputNames(ChainBuild):
    """whole chains: the names a dependant lists among its inputs (by name, group- or namespace-qualified, by class,
    optional) resolve to the tasks the component-wise rule names, or construction fails - against the chain model and
    the reference resolution"""
    name = 'dependant_inputs'
    aspects = ('edges',)


ARGS_SRC = '''
from taskchain import Task
from taskchain.data import InMemoryData

class Src(Task):
    class Meta:
        name = 'src'
        data_class = InMemoryData
    def run(self) -> str:
        return 'src'

class G1Src(Task):
    class Meta:
        name = 'src'
        task_group = 'g1'
        data_class = InMemoryData
    def run(self) -> str:
        return 'g1:src'

class G2Src(Task):
    class Meta:
        name = 'src'
        task_group = 'g2'
        data_class = InMemoryData
    def run(self) -> str:
        return 'g2:src'

class DeepSrc(Task):
    class Meta:
        name = 'src'
        task_group = 'g1:h'
        data_class = InMemoryData
    def run(self) -> str:
        return 'g1:h:src'
'''


class RunArguments(Suite):
    """an argument of run names an input by its short form: it receives the input that the short form resolves to among
    the task's inputs (the less nested one when it is the less nested form of all the others), an ambiguous short form
    is an error, and neither depends on the order in which the inputs are declared.  Runtime check against the
    component-wise reference resolution (ref_resolve) over the names of the inputs."""
    name = 'run_arguments'
    model = ''
    INPUTS = ['src', 'g1:src', 'g2:src', 'g1:h:src']

    def gen(self, rng, tier):
        import itertools
        out = []
        for k in (1, 2, 3):
            for combo in itertools.combinations(self.INPUTS, k):
                for perm in itertools.permutations(combo):
                    out.append(dict(inputs=list(perm), arg='src'))
        return out

    def run_impl(self, case):
        import sys, types
        from pathlib import Path
        from taskchain import Config
        from .. import pipeline as pl
        with pl.workspace(dict(classes=[], files={})) as (d, _):
            name = 'tcv_runargs'
            m = types.ModuleType(name)
            sys.modules[name] = m
            try:
                dep = ('class Dep(Task):\n    class Meta:\n        name = "dep"\n        data_class = InMemoryData\n'
                       f'        input_tasks = {case["inputs"]!r}\n'
                       f'    def run(self, {case["arg"]}) -> str:\n        return {case["arg"]}\n')
                exec(compile(ARGS_SRC + dep, name, 'exec'), m.__dict__)
                try:
                    ch = Config(Path('data'), name='c', data={'tasks': [f'{name}.*']}).chain()
                except Exception as e:
                    return dict(build_error=f'{type(e).__name__}: {e}'[:200])
                t = ch['dep']
                try:
                    via_registry = t.input_tasks[case['arg']].value
                except Exception as e:
                    via_registry = ['error', type(e).__name__]
                try:
                    value = t.value
                except Exception as e:
                    value = ['error', type(e).__name__]
                return dict(value=value, via_registry=via_registry)
            finally:
                sys.modules.pop(name, None)

    def oracle(self, case, obs):
        if 'unexpected_exception' in obs:
            return f'unexpected exception {obs["unexpected_exception"]}: {obs["text"]}'
        if 'build_error' in obs:
            return f'{case}: the chain cannot be built: {obs["build_error"]}'
        found = ref_resolve(case['arg'], case['inputs'], True)
        want = found if found is not None else 'error'
        got = 'error' if isinstance(obs['value'], list) else obs['value']
        reg = 'error' if isinstance(obs['via_registry'], list) else obs['via_registry']
        if got != want:
            return (f'{case}: run received {obs["value"]} for its argument `{case["arg"]}`; among the inputs {case["inputs"]} the short '
                    f'form resolves to {want}')
        if reg != want:
            return f'{case}: input_tasks[{case["arg"]!r}] is {obs["via_registry"]}; the short form resolves to {want}'
        return None

    def nontrivial(self, case, obs):
        return len(case['inputs']) >= 2

    def key(self, case):
        return repr(case)


class C10(Prop):
    pid = 'C10'
    suites = [Find(), InputNames(), RunArguments()]
    trusted_base = ['UTF-8 argument: split on the ASCII separators gives the same pieces on bytes as on code points']
    assumptions = ['full names are well formed (non-empty components without ":") for the specification theorems; '
                   'the model itself is total on arbitrary text and is compared on malformed names too']


PROP = C10()
