"""C13 - which tasks of a MultiChain are one object: against Model/Sharing.v."""
from pathlib import Path

from ..core import Suite
from ..coqlit import cstr, cnat, clist, cpair
from ..suites_chain import K, P


class SharedByLocation(Suite):
    """MultiChains whose members differ in data directory, in a parameter of the source task, in a parameter of the
    dependant: the task objects of all members, walked member by member, are numbered by identity; Model/Sharing.v
    (`share`) numbers the same walk from (data directory, slug name, hash) alone.  Besides, the oracle predicts the
    sharing from the case itself: two tasks are one object exactly when directory and every parameter they depend on
    agree.  The hashes given to the model are the implementation's own."""
    name = 'shared_by_location'
    imports = 'Sharing'
    in_type = 'list location'
    out_type = 'list nat'
    eqb = '(fun a b : list nat => if list_eq_dec Nat.eq_dec a b then true else false)'
    model = 'share'

    def corpus(self):
        m = lambda d, x, y, **k: dict(dict(dir=d, x=x, y=y), **k)
        return [dict(members=[m(0, 1, 1), m(1, 1, 1)]),                       # equal configs, two directories
                dict(members=[m(0, 1, 1), m(0, 1, 1)]),                       # equal configs, one directory
                dict(members=[m(0, 1, 1), m(0, 1, 2), m(1, 1, 2), m(1, 2, 2)]),
                dict(members=[m(0, 1, 1), m(1, 1, 1), m(0, 1, 1), m(2, 1, 1), m(1, 1, 1)]),
                dict(members=[m(0, 1, 1), m(0, 2, 1), m(0, 1, 2), m(0, 2, 2), m(0, 1, 1)]),
                dict(members=[m(0, 1, 1)]),
                # a value that equals the default of the parameter without being it (True for 1, 1.0 for 1): another text, another task
                dict(members=[m(0, 1, 1), m(0, 1, 1, lim=True), m(0, 1, 1, lim=1), m(0, 1, 1, lim=1.0)]),
                dict(members=[m(0, 1, 1, lim=0), m(0, 1, 1, lim=False), m(1, 1, 1, lim=0.0), m(0, 1, 1, lim=0.0)])]

    def gen(self, rng, tier):
        out = []
        for _ in range(12 if tier == 'quick' else 300):
            n = rng.choice([2, 3, 4, 6])
            out.append(dict(members=[dict(dir=rng.choice([0, 0, 1, 2]), x=rng.choice([1, 1, 2]), y=rng.choice([1, 1, 2])) for _ in range(n)]))
        return out

    def run_impl(self, case):
        from taskchain import Config, MultiChain
        from .. import pipeline as pl
        classes = [dict(K(0, 'Src', params=[P('x'), P('lim', default=[1])]), name='src'), dict(K(1, 'Dst', params=[P('y')], meta_inputs=[{'cls': 0}]), name='dst'),
                   dict(K(2, 'Top', meta_inputs=[{'cls': 1}]), name='top')]
        with pl.workspace(dict(classes=classes, files={})) as (d, mod):
            cfgs = [Config(Path(f'data{m["dir"]}'), name=f'c{i}', data=dict({'tasks': [f'{mod}.*'], 'x': m['x'], 'y': m['y']}, **({'lim': m['lim']} if 'lim' in m else {})))
                    for i, m in enumerate(case['members'])]
            mc = MultiChain(cfgs)
            walk, ids, seen = [], [], {}
            for i, m in enumerate(case['members']):
                ch = mc.chains[f'c{i}']
                for name in sorted(ch.tasks):
                    t = ch.tasks[name]
                    walk.append([f'data{m["dir"]}', t.slugname, t.name_for_persistence, name, i])
                    ids.append(seen.setdefault(id(t), len(seen)))
            return dict(walk=walk, ids=ids)

    def encode(self, case, obs):
        return (clist([cpair(cstr(w[0]), cstr(w[1]), cstr(w[2])) for w in obs.get('walk', [])]),
                clist([cnat(i) for i in obs.get('ids', [])]))

    def oracle(self, case, obs):
        if 'unexpected_exception' in obs:
            return f'unexpected exception {obs["unexpected_exception"]}: {obs["text"]}'
        def depends(name, m):
            return (m['dir'], name, m['x'], repr(m.get('lim', 1))) + ((m['y'],) if name in ('dst', 'top') else ())
        walk, ids = obs['walk'], obs['ids']
        for a in range(len(walk)):
            for b in range(a + 1, len(walk)):
                same = depends(walk[a][3], case['members'][walk[a][4]]) == depends(walk[b][3], case['members'][walk[b][4]])
                if same != (ids[a] == ids[b]):
                    return (f'{case}: task {walk[a][3]} of member {walk[a][4]} and task {walk[b][3]} of member {walk[b][4]} are '
                            f'{"one object" if ids[a] == ids[b] else "two objects"}, but data directory and the parameters they '
                            f'depend on {"agree" if same else "differ"}')
        return None

    def nontrivial(self, case, obs):
        return len(set(obs.get('ids', []))) < len(obs.get('ids', [])) or len({m['dir'] for m in case['members']}) > 1

    def key(self, case):
        return repr(case)
