"""C04 - each computation runs at most once, and only on demand."""
import json

from ..core import Prop, Suite
from ..suites_hist import Histories


class Plain(Histories):
    """constructions, requests, inspection and restarts only: no forcing, failure or deletion"""
    name = 'plain_histories'
    mix = 'plain'
    checks = ('runs', 'values')


class Mixed(Histories):
    name = 'histories'
    checks = ('runs',)


class DataKinds(Suite):
    """every persisting data class, also with an empty result: computed once, then requested again by the same
    object, a new chain and a new process - run executes once per storage location (runtime check on the real
    data classes; the histories above use the JSON and in-memory classes)"""
    name = 'data_classes_at_most_once'
    model = ''

    def gen(self, rng, tier):
        from .c05 import KINDS
        return ([dict(kind=k, empty=e) for k in KINDS for e in (False, True)
                 if not (e and k in ('pandas', 'dir', 'continues'))] +
                [dict(kind=k, empty=False, big=True) for k in ('listnumpy', 'generated')])

    def run_impl(self, case):
        import os, shutil, tempfile
        from .c05 import make_module, the_chain, in_child, describe_result
        kind = case['kind']
        tmp = tempfile.mkdtemp(prefix='tcverif-c04-')
        old = os.getcwd()
        try:
            os.chdir(tmp)
            state = dict(run=1, runs=0, fault=None, bad=None, empty=case['empty'], big=case.get('big', False))
            m = make_module(kind, state)

            def first():
                ch = the_chain(m, 'data')
                t = ch['c05:victim']
                v1 = describe_result(kind, t.value)
                v2 = describe_result(kind, t.value)
                t2 = the_chain(m, 'data')['c05:victim']
                has = bool(t2.has_data)
                v3 = describe_result(kind, t2.value)
                return dict(values=[v1, v2, v3], has=has, runs=state['runs'])

            def later():
                t = the_chain(m, 'data')['c05:victim']
                has = bool(t.has_data)
                return dict(values=[describe_result(kind, t.value)], has=has, runs=state['runs'])
            a = in_child(first)
            state['runs'] = 0
            b = in_child(later)
            return dict(first=a, later=b)
        finally:
            os.chdir(old)
            import sys
            sys.modules.pop('tcv_dyn_c05', None)
            shutil.rmtree(tmp, ignore_errors=True)

    def oracle(self, case, obs):
        if 'unexpected_exception' in obs:
            return f'unexpected exception {obs["unexpected_exception"]}: {obs["text"]}'
        a, b = obs['first'], obs['later']
        for tag, r in (('computing process', a), ('later process', b)):
            if 'child_error' in r:
                return f'{case}: {tag} failed: {r["child_error"]}'
        if a['runs'] != 1:
            return f'{case}: run executed {a["runs"]} times for three requests (same object twice, then a new chain) in one process'
        if not a['has'] or not b['has']:
            return f'{case}: has_data is False although the result was computed and stored'
        if b['runs'] != 0:
            return f'{case}: a later process ran the task again ({b["runs"]} runs) although its result is stored'
        vals = a['values'] + b['values']
        if any(json.dumps(v, sort_keys=True, default=str) != json.dumps(vals[0], sort_keys=True, default=str) for v in vals):
            return f'{case}: the requests do not yield one value: {json.dumps(vals, default=str)[:300]}'
        return None

    def nontrivial(self, case, obs):
        return True

    def key(self, case):
        return repr(case)


class ReadableLinks(Suite):
    """inspection by readable links (create_readable_filenames), in parameter mode and in name mode: nothing runs,
    no stored result changes, a later chain loads everything (runtime check; links are outside the store model)"""
    name = 'readable_links'
    model = ''

    def gen(self, rng, tier):
        return [dict(param_mode=pm, data=d, link_name=ln, twice=tw) for pm in (True, False) for d in ('json', 'dir')
                for ln in (None, 'nice') for tw in (False, True)]

    def run_impl(self, case):
        import hashlib
        from pathlib import Path
        from .. import pipeline as pl
        from ..suites_chain import K
        classes = [dict(K(0, 'Src', data=case['data']), name='source'), dict(K(1, 'Tot', meta_inputs=[{'cls': 0}]), name='total')]
        full = dict(classes=classes, files={'exp.json': {'tasks': ['@M.*']}}, base={'file': 'exp.json'}, context=None)

        def files():
            return {str(p): hashlib.sha256(p.read_bytes()).hexdigest()[:12] for p in sorted(Path('data').rglob('*'))
                    if p.is_file() and not p.is_symlink()}
        with pl.workspace(full) as (d, mod):
            def chain():
                return pl.build_config(full, mod).chain(parameter_mode=case['param_mode'])
            pl.RUNLOG.clear()
            c1 = chain()
            v1 = {n: pl.json_safe(str(t.value) if case['data'] == 'dir' and n == 'source' else t.value) for n, t in c1.tasks.items()}
            runs1 = len(pl.RUNLOG)
            before = files()
            for _ in range(2 if case['twice'] else 1):
                c1.create_readable_filenames(name=case['link_name'])
            after = files()
            links = sorted(str(p) for p in Path('data').rglob('*') if p.is_symlink())
            broken = [l for l in links if not Path(l).exists()]
            pl.RUNLOG.clear()
            c2 = chain()
            has = {n: bool(t.has_data) for n, t in c2.tasks.items()}
            v2 = {}
            for n, t in c2.tasks.items():
                try:
                    v2[n] = pl.json_safe(str(t.value) if case['data'] == 'dir' and n == 'source' else t.value)
                except Exception as e:
                    v2[n] = f'{type(e).__name__}: {e}'[:120]
            return dict(runs1=runs1, before=before, after=after, links=links, broken=broken, has=has,
                        runs2=[s for _, s, _ in pl.RUNLOG], same_values=v1 == v2)

    def oracle(self, case, obs):
        if 'unexpected_exception' in obs:
            return f'unexpected exception {obs["unexpected_exception"]}: {obs["text"]}'
        if obs['before'] != obs['after']:
            gone = sorted(set(obs['before']) - set(obs['after']))
            return f'{case}: creating readable links changed or removed stored files {gone or "(content changed)"}'
        if obs['broken']:
            return f'{case}: readable links do not resolve: {obs["broken"]}'
        if not all(obs['has'].values()):
            return f'{case}: after creating readable links a new chain finds no stored result for {[n for n, h in obs["has"].items() if not h]}'
        if obs['runs2']:
            return f'{case}: after creating readable links a new chain ran {obs["runs2"]} although every result was stored'
        if not obs['same_values']:
            return f'{case}: the values a new chain loads differ from the computed ones'
        return None

    def nontrivial(self, case, obs):
        return obs.get('runs1', 0) >= 2

    def key(self, case):
        return repr(case)


ON_DEMAND_SRC = """
from taskchain import Task, Parameter
class Raw(Task):
    def run(self) -> dict:
        _RUNS.append('raw')
        return {'raw': 1}
class Stats(Task):
    class Meta:
        input_tasks = [Raw]
    def run(self, raw) -> dict:
        _RUNS.append('stats')
        return {'n': len(raw)}
class Extra(Task):
    class Meta:
        input_tasks = [Raw]
    def run(self) -> dict:
        _RUNS.append('extra')
        return {'x': 1}
class Report(Task):
    class Meta:
        input_tasks = [Raw, Stats, Extra]
        parameters = [Parameter('with_stats')]
    def run(self, raw, with_stats) -> dict:
        _RUNS.append('report')
        out = {'raw': raw}
        if with_stats:
            out['stats'] = self.input_tasks['stats'].value
        return out
"""


class OnDemandInputs(Suite):
    """a task that declares more inputs than one run needs: only the inputs named in the signature of run and
    those the body asks for are computed (runtime check with hand-written tasks; the generated tasks of the
    histories read every input)"""
    name = 'inputs_on_demand'
    model = ''

    def gen(self, rng, tier):
        return [dict(with_stats=w, again=a) for w in (False, True) for a in (False, True)]

    def run_impl(self, case):
        import os, shutil, sys, tempfile, types
        from pathlib import Path
        from taskchain import Config
        tmp = tempfile.mkdtemp(prefix='tcverif-c04d-')
        name = 'tcv_dyn_c04'
        m = types.ModuleType(name)
        m.__dict__['_RUNS'] = []
        sys.modules[name] = m
        try:
            exec(compile(ON_DEMAND_SRC, name, 'exec'), m.__dict__)
            for c in ('Raw', 'Stats', 'Extra', 'Report'):
                getattr(m, c).__module__ = name

            def chain():
                return Config(Path(tmp) / 'data', name='cfg', data={'tasks': [m.Raw, m.Stats, m.Extra, m.Report],
                                                                     'with_stats': case['with_stats']}).chain()
            ch = chain()
            v = ch['report'].value
            out = dict(runs=list(m._RUNS), has={n: bool(t.has_data) for n, t in ch.tasks.items()}, value=v)
            if case['again']:
                del m._RUNS[:]
                ch2 = chain()
                v2 = ch2['report'].value
                out['runs_again'] = list(m._RUNS)
                out['same'] = v2 == v
            return out
        finally:
            sys.modules.pop(name, None)
            shutil.rmtree(tmp, ignore_errors=True)

    def oracle(self, case, obs):
        if 'unexpected_exception' in obs:
            return f'unexpected exception {obs["unexpected_exception"]}: {obs["text"]}'
        want = ['raw', 'stats', 'report'] if case['with_stats'] else ['raw', 'report']
        if sorted(obs['runs']) != sorted(want):
            return (f'with_stats={case["with_stats"]}: requesting `report` ran {obs["runs"]}; needed and missing were {want} '
                    f'(an input that is declared but not used by this run must not be computed)')
        if obs['has'].get('extra') or (not case['with_stats'] and obs['has'].get('stats')):
            return f'with_stats={case["with_stats"]}: results appeared for tasks nobody needed: {obs["has"]}'
        if case['again'] and (obs['runs_again'] or not obs['same']):
            return f'with_stats={case["with_stats"]}: a new chain ran {obs["runs_again"]} for the stored `report`'
        return None

    def nontrivial(self, case, obs):
        return True

    def key(self, case):
        return repr(case)


class C04(Prop):
    pid = 'C04'
    suites = [Plain(), Mixed(), DataKinds(), ReadableLinks(), OnDemandInputs()]
    assumptions = ['one-shot data classes (JSON, in-memory); resumable ContinuesData is re-run by design until finished()']


PROP = C04()
