"""C04 - each computation runs at most once, and only on demand."""
from ..core import Prop
from ..suites_hist import Histories


class Plain(Histories):
    """constructions, requests, inspection and restarts only: no forcing, failure or deletion"""
    name = 'plain_histories'
    mix = 'plain'
    checks = ('runs', 'values')


class Mixed(Histories):
    name = 'histories'
    checks = ('runs',)


class C04(Prop):
    pid = 'C04'
    suites = [Plain(), Mixed()]
    assumptions = ['one-shot data classes (JSON, in-memory); resumable ContinuesData is re-run by design until finished()']


PROP = C04()
