"""C04 - each computation runs at most once, and only on demand."""
import json

from ..core import Prop, Suite
from ..suites_hist import Histories


class Plain(Histories):
    """constructions, requests, inspection and restarts only: no forcing, failure or deletion"""
    name = 'plain_histories'
    mix = 'plain'
    checks = ('runs', 'values')


class Mixed(Histories):
    name = 'histories'
    checks = ('runs',)


class DataKinds(Suite):
    """every persisting data class, also with an empty result: computed once, then requested again by the same
    object, a new chain and a new process - run executes once per storage location (runtime check on the real
    data classes; the histories above use the JSON and in-memory classes)"""
    name = 'data_classes_at_most_once'
    model = ''

    def gen(self, rng, tier):
        from .c05 import KINDS
        return ([dict(kind=k, empty=e) for k in KINDS for e in (False, True)
                 if not (e and k in ('pandas', 'dir', 'continues'))] +
                [dict(kind=k, empty=False, big=True) for k in ('listnumpy', 'generated')])

    def run_impl(self, case):
        import os, shutil, tempfile
        from .c05 import make_module, the_chain, in_child, describe_result
        kind = case['kind']
        tmp = tempfile.mkdtemp(prefix='tcverif-c04-')
        old = os.getcwd()
        try:
            os.chdir(tmp)
            state = dict(run=1, runs=0, fault=None, bad=None, empty=case['empty'], big=case.get('big', False))
            m = make_module(kind, state)

            def first():
                ch = the_chain(m, 'data')
                t = ch['c05:victim']
                v1 = describe_result(kind, t.value)
                v2 = describe_result(kind, t.value)
                t2 = the_chain(m, 'data')['c05:victim']
                has = bool(t2.has_data)
                v3 = describe_result(kind, t2.value)
                return dict(values=[v1, v2, v3], has=has, runs=state['runs'])

            def later():
                t = the_chain(m, 'data')['c05:victim']
                has = bool(t.has_data)
                return dict(values=[describe_result(kind, t.value)], has=has, runs=state['runs'])
            a = in_child(first)
            state['runs'] = 0
            b = in_child(later)
            return dict(first=a, later=b)
        finally:
            os.chdir(old)
            import sys
            sys.modules.pop('tcv_dyn_c05', None)
            shutil.rmtree(tmp, ignore_errors=True)

    def oracle(self, case, obs):
        if 'unexpected_exception' in obs:
            return f'unexpected exception {obs["unexpected_exception"]}: {obs["text"]}'
        a, b = obs['first'], obs['later']
        for tag, r in (('computing process', a), ('later process', b)):
            if 'child_error' in r:
                return f'{case}: {tag} failed: {r["child_error"]}'
        if a['runs'] != 1:
            return f'{case}: run executed {a["runs"]} times for three requests (same object twice, then a new chain) in one process'
        if not a['has'] or not b['has']:
            return f'{case}: has_data is False although the result was computed and stored'
        if b['runs'] != 0:
            return f'{case}: a later process ran the task again ({b["runs"]} runs) although its result is stored'
        vals = a['values'] + b['values']
        if any(json.dumps(v, sort_keys=True, default=str) != json.dumps(vals[0], sort_keys=True, default=str) for v in vals):
            return f'{case}: the requests do not yield one value: {json.dumps(vals, default=str)[:300]}'
        return None

    def nontrivial(self, case, obs):
        return True

    def key(self, case):
        return repr(case)


class ReadableLinks(Suite):
    """inspection by readable links (create_readable_filenames), in parameter mode and in name mode: nothing runs,
    no stored result changes, a later chain loads everything (runtime check; links are outside the store model)"""
    name = 'readable_links'
    model = ''

    def gen(self, rng, tier):
        return [dict(param_mode=pm, data=d, link_name=ln, twice=tw) for pm in (True, False) for d in ('json', 'dir')
                for ln in (None, 'nice') for tw in (False, True)]

    def run_impl(self, case):
        import hashlib
        from pathlib import Path
        from .. import pipeline as pl
        from ..suites_chain import K
        classes = [dict(K(0, 'Src', data=case['data']), name='source'), dict(K(1, 'Tot', meta_inputs=[{'cls': 0}]), name='total')]
        full = dict(classes=classes, files={'exp.json': {'tasks': ['@M.*']}}, base={'file': 'exp.json'}, context=None)

        def files():
            return {str(p): hashlib.sha256(p.read_bytes()).hexdigest()[:12] for p in sorted(Path('data').rglob('*'))
                    if p.is_file() and not p.is_symlink()}
        with pl.workspace(full) as (d, mod):
            def chain():
                return pl.build_config(full, mod).chain(parameter_mode=case['param_mode'])
            pl.RUNLOG.clear()
            c1 = chain()
            v1 = {n: pl.json_safe(str(t.value) if case['data'] == 'dir' and n == 'source' else t.value) for n, t in c1.tasks.items()}
            runs1 = len(pl.RUNLOG)
            before = files()
            for _ in range(2 if case['twice'] else 1):
                c1.create_readable_filenames(name=case['link_name'])
            after = files()
            links = sorted(str(p) for p in Path('data').rglob('*') if p.is_symlink())
            broken = [l for l in links if not Path(l).exists()]
            pl.RUNLOG.clear()
            c2 = chain()
            has = {n: bool(t.has_data) for n, t in c2.tasks.items()}
            v2 = {}
            for n, t in c2.tasks.items():
                try:
                    v2[n] = pl.json_safe(str(t.value) if case['data'] == 'dir' and n == 'source' else t.value)
                except Exception as e:
                    v2[n] = f'{type(e).__name__}: {e}'[:120]
            return dict(runs1=runs1, before=before, after=after, links=links, broken=broken, has=has,
                        runs2=[s for _, s, _ in pl.RUNLOG], same_values=v1 == v2)

    def oracle(self, case, obs):
        if 'unexpected_exception' in obs:
            return f'unexpected exception {obs["unexpected_exception"]}: {obs["text"]}'
        if obs['before'] != obs['after']:
            gone = sorted(set(obs['before']) - set(obs['after']))
            return f'{case}: creating readable links changed or removed stored files {gone or "(content changed)"}'
        if obs['broken']:
            return f'{case}: readable links do not resolve: {obs["broken"]}'
        if not all(obs['has'].values()):
            return f'{case}: after creating readable links a new chain finds no stored result for {[n for n, h in obs["has"].items() if not h]}'
        if obs['runs2']:
            return f'{case}: after creating readable links a new chain ran {obs["runs2"]} although every result was stored'
        if not obs['same_values']:
            return f'{case}: the values a new chain loads differ from the computed ones'
        return None

    def nontrivial(self, case, obs):
        return obs.get('runs1', 0) >= 2

    def key(self, case):
        return repr(case)


ON_DEMAND_SRC = """
from taskchain import Task, Parameter
class Raw(Task):
    def run(self) -> dict:
        _RUNS.append('raw')
        return {'raw': 1}
class Stats(Task):
    class Meta:
        input_tasks = [Raw]
    def run(self, raw) -> dict:
        _RUNS.append('stats')
        return {'n': len(raw)}
class Extra(Task):
    class Meta:
        input_tasks = [Raw]
    def run(self) -> dict:
        _RUNS.append('extra')
        return {'x': 1}
class Report(Task):
    class Meta:
        input_tasks = [Raw, Stats, Extra]
        parameters = [Parameter('with_stats')]
    def run(self, raw, with_stats) -> dict:
        _RUNS.append('report')
        out = {'raw': raw}
        if with_stats:
            out['stats'] = self.input_tasks['stats'].value
        return out
"""


class OnDemandInputs(Suite):
    """a task that declares more inputs than one run needs: only the inputs named in the signature of run and
    those the body asks for are computed (runtime check with hand-written tasks; the generated tasks of the
    histories read every input)"""
    name = 'inputs_on_demand'
    model = ''

    def gen(self, rng, tier):
        return [dict(with_stats=w, again=a) for w in (False, True) for a in (False, True)]

    def run_impl(self, case):
        import os, shutil, sys, tempfile, types
        from pathlib import Path
        from taskchain import Config
        tmp = tempfile.mkdtemp(prefix='tcverif-c04d-')
        name = 'tcv_dyn_c04'
        m = types.ModuleType(name)
        m.__dict__['_RUNS'] = []
        sys.modules[name] = m
        try:
            exec(compile(ON_DEMAND_SRC, name, 'exec'), m.__dict__)
            for c in ('Raw', 'Stats', 'Extra', 'Report'):
                getattr(m, c).__module__ = name

            def chain():
                return Config(Path(tmp) / 'data', name='cfg', data={'tasks': [m.Raw, m.Stats, m.Extra, m.Report],
                                                                     'with_stats': case['with_stats']}).chain()
            ch = chain()
            v = ch['report'].value
            out = dict(runs=list(m._RUNS), has={n: bool(t.has_data) for n, t in ch.tasks.items()}, value=v)
            if case['again']:
                del m._RUNS[:]
                ch2 = chain()
                v2 = ch2['report'].value
                out['runs_again'] = list(m._RUNS)
                out['same'] = v2 == v
            return out
        finally:
            sys.modules.pop(name, None)
            shutil.rmtree(tmp, ignore_errors=True)

    def oracle(self, case, obs):
        if 'unexpected_exception' in obs:
            return f'unexpected exception {obs["unexpected_exception"]}: {obs["text"]}'
        want = ['raw', 'stats', 'report'] if case['with_stats'] else ['raw', 'report']
        if sorted(obs['runs']) != sorted(want):
            return (f'with_stats={case["with_stats"]}: requesting `report` ran {obs["runs"]}; needed and missing were {want} '
                    f'(an input that is declared but not used by this run must not be computed)')
        if obs['has'].get('extra') or (not case['with_stats'] and obs['has'].get('stats')):
            return f'with_stats={case["with_stats"]}: results appeared for tasks nobody needed: {obs["has"]}'
        if case['again'] and (obs['runs_again'] or not obs['same']):
            return f'with_stats={case["with_stats"]}: a new chain ran {obs["runs_again"]} for the stored `report`'
        return None

    def nontrivial(self, case, obs):
        return True

    def key(self, case):
        return repr(case)


class NameModeNeighbours(Suite):
    """persistence by config name (parameter_mode=False), two configs whose names are related as texts (one extends
    the other by `_large`, `.v2`, a digit...), every data class: after both results are stored, inspecting and
    requesting either one in new chains runs nothing and yields its own value.  Runtime check only."""
    name = 'name_mode_neighbours'
    model = ''
    NAMES = [('model', 'model_large'), ('exp', 'exp.v2'), ('run_1', 'run_10'), ('a', 'a_b_c'), ('base', 'base_errors')]

    def gen(self, rng, tier):
        from .c05 import KINDS
        return [dict(kind=k, names=list(n), order=o) for k in KINDS for n in self.NAMES for o in (0, 1)
                if tier != 'quick' or n in self.NAMES[:2] or k in ('dir', 'continues', 'listnumpy')]

    def run_impl(self, case):
        import os, shutil, tempfile
        from pathlib import Path
        from taskchain import Config
        from .c05 import make_module, in_child, describe_result
        kind = case['kind']
        tmp = tempfile.mkdtemp(prefix='tcverif-c04n-')
        old = os.getcwd()
        try:
            os.chdir(tmp)
            state = dict(run=1, runs=0, fault=None, bad=None, empty=False, big=False)
            m = make_module(kind, state)
            first, second = (case['names'] if case['order'] == 0 else case['names'][::-1])

            def chain(n):
                return Config(Path('data'), name=n, data={'tasks': [m.Victim]}).chain(parameter_mode=False)

            def scenario():
                out = {}
                a = chain(first)['c05:victim']
                out['v_first'] = describe_result(kind, a.value)
                b = chain(second)['c05:victim']
                out['has_second_before'] = bool(b.has_data)
                _ = b.data_path, chain(second).tasks_df
                out['v_second'] = describe_result(kind, b.value)
                out['runs_compute'] = state['runs']
                for n in (first, second):
                    ch = chain(n)
                    _ = ch.tasks_df
                    t = ch['c05:victim']
                    out[f'has_{n}'] = bool(t.has_data)
                    out[f'again_{n}'] = describe_result(kind, t.value)
                out['runs_total'] = state['runs']
                return out
            return in_child(scenario)
        finally:
            os.chdir(old)
            import sys
            sys.modules.pop('tcv_dyn_c05', None)
            shutil.rmtree(tmp, ignore_errors=True)

    def oracle(self, case, obs):
        if 'unexpected_exception' in obs:
            return f'unexpected exception {obs["unexpected_exception"]}: {obs["text"]}'
        if 'child_error' in obs:
            return f'{case}: failed: {obs["child_error"]}'
        first, second = (case['names'] if case['order'] == 0 else case['names'][::-1])
        if obs['has_second_before']:
            return f'{case}: config {second} reports a stored result before anything was computed for it'
        if obs['runs_compute'] != 2:
            return f'{case}: computing the two configs ran the task {obs["runs_compute"]} times'
        for n in (first, second):
            if not obs[f'has_{n}']:
                return f'{case}: the stored result of config {n} is gone after config {first if n == second else second} was inspected and computed'
        if obs['runs_total'] != 2:
            return (f'{case}: requesting both results again in new chains ran the task {obs["runs_total"] - 2} more time(s): '
                    f'at most once per storage location')
        return None

    def nontrivial(self, case, obs):
        return True

    def key(self, case):
        return repr(case)


class SharedRegistry(Suite):
    """chains built one after the other over one registry of task objects (Chain(config, shared_tasks=registry), the
    mechanism behind MultiChain): a task computed through the first chain - kept in memory only, or persisted - is not
    run again when a later chain that contains the same computation is built and asked.  Runtime check only."""
    name = 'chains_sharing_a_registry'
    model = ''

    def gen(self, rng, tier):
        return [dict(data=d, n=n, same=s) for d in ('memory', 'json') for n in (2, 3) for s in (True, False)]

    def run_impl(self, case):
        from pathlib import Path
        from taskchain import Config, Chain
        from .. import pipeline as pl
        from ..suites_chain import K, P
        classes = [dict(K(0, 'Src', data=case['data']), name='src'),
                   dict(K(1, 'Mid', meta_inputs=[{'cls': 0}], data=case['data']), name='mid'),
                   dict(K(2, 'Top', meta_inputs=[{'cls': 1}], params=[P('k')], data=case['data']), name='top')]
        with pl.workspace(dict(classes=classes, files={})) as (d, mod):
            registry = {}
            out = []
            for i in range(case['n']):
                cfg = Config(Path('data'), name=f'c{i}', data={'tasks': [f'{mod}.*'], 'k': 0 if case['same'] else i})
                ch = Chain(cfg, shared_tasks=registry)
                before = pl.runs_started()
                vals = {n: pl.to_spec(t.value) for n, t in ch.tasks.items()}
                out.append(dict(ran=pl.runs_started() - before, vals=vals, ids={n: id(t) for n, t in ch.tasks.items()}))
            return dict(rounds=out)

    def oracle(self, case, obs):
        if 'unexpected_exception' in obs:
            return f'unexpected exception {obs["unexpected_exception"]}: {obs["text"]}'
        want = [3] + [0 if case['same'] else 1] * (case['n'] - 1)
        got = [r['ran'] for r in obs['rounds']]
        if got != want:
            return (f'{case}: the chains built over one registry ran {got} tasks; src and mid (and top when k is equal) are the '
                    f'same computations in every chain, expected {want}')
        for r in obs['rounds'][1:]:
            for n in ('src', 'mid'):
                if repr(r['vals'][n]) != repr(obs['rounds'][0]['vals'][n]):
                    return f'{case}: {n} yields another value in a later chain'
        return None

    def nontrivial(self, case, obs):
        return True

    def key(self, case):
        return repr(case)


class ContextNeutral(Suite):
    """chains on one data directory that differ only in their context - none, a mapping, a file, a Context object, a list -
    where the context changes a parameter of the last task only (or of no task): the tasks it does not touch have one
    location in all of them, are computed once and loaded ever after, whichever chain asks, in whatever order, also in a
    new process.  Runtime check only."""
    name = 'context_leaves_upstream_alone'
    model = ''

    def gen(self, rng, tier):
        orders = [[0, 1, 2, 0, 1], [1, 0, 1, 0, 3], [2, 3, 0, 4, 2], [4, 0, 4, 0, 1]]
        return [dict(order=o, touch=t, data=d) for o in orders for t in ('top', 'none') for d in ('json',)] + \
               [dict(order=[1, 0, 1, 0], touch='top', data='dir')]

    def run_impl(self, case):
        import json
        from pathlib import Path
        from taskchain import Config
        from taskchain.config import Context
        from .. import pipeline as pl
        from ..suites_chain import K, P
        from .c05 import in_child
        classes = [dict(K(0, 'Load', params=[P('src')], data=case['data']), name='load'),
                   dict(K(1, 'Clean', meta_inputs=[{'cls': 0}]), name='clean'),
                   dict(K(2, 'Report', meta_inputs=[{'cls': 1}], params=[P('top', default=[1])]), name='report')]
        key = 'top' if case['touch'] == 'top' else 'unrelated'
        with pl.workspace(dict(classes=classes, files={})) as (d, mod):
            Path('ctx.json').write_text(json.dumps({key: 4}))
            Path('main.json').write_text(json.dumps({'tasks': [f'{mod}.*'], 'src': 's'}))
            contexts = [lambda: None, lambda: {key: 3}, lambda: 'ctx.json', lambda: Context(data={key: 5}, name='obj'),
                        lambda: [{key: 6}, {'other': 1}]]

            def ask(k):
                ch = Config(Path('data'), 'main.json', context=contexts[k]()).chain()
                before = len(pl.RUNLOG)
                v = pl.to_spec(ch['report'].value)
                return dict(ran=[r[1] for r in pl.RUNLOG[before:]], top=v.get('p', {}).get('top'),
                            paths={n: str(t.data_path) for n, t in ch.tasks.items()})
            steps = [ask(k) for k in case['order']]
            steps.append(in_child(lambda: ask(case['order'][0])))
            return dict(steps=steps)

    def oracle(self, case, obs):
        if 'unexpected_exception' in obs:
            return f'unexpected exception {obs["unexpected_exception"]}: {obs["text"]}'
        tops = {0: '1', 1: '3', 2: '4', 3: '5', 4: '6'} if case['touch'] == 'top' else {k: '1' for k in range(5)}
        seen = set()
        for i, (k, s) in enumerate(zip(case['order'] + [case['order'][0]], obs['steps'])):
            if 'child_error' in s:
                return f'{case}: the new process failed: {s["child_error"]}'
            want = ([] if i else ['load', 'clean']) + ([] if tops[k] in seen else ['report'])
            if sorted(s['ran']) != sorted(want):
                return (f'{case}: request {i} (context {k}) ran {s["ran"]}; load and clean are the same computations under every '
                        f'context and were computed by the first request, report is new only for a new value of top: expected {want}')
            if s['top'] != tops[k]:
                return f'{case}: request {i} (context {k}) reports top={s["top"]}, its context gives {tops[k]}'
            seen.add(tops[k])
        return None

    def nontrivial(self, case, obs):
        return True

    def key(self, case):
        return repr(case)


CUSTOM_SRC = '''
from taskchain import Task
from taskchain.data import JSONData

RUNS = []

class Table(JSONData):          # a data class whose objects are made by run, with constructor arguments
    DATA_TYPES = []
    def __init__(self, rows):
        super().__init__()
        self._value = rows

class TextData(JSONData):       # a data class of the user's own: load() sets the value on the object and returns nothing
    DATA_TYPES = []
    @property
    def extension(self):
        return 'txt'
    def save(self):
        self.path.write_text(self._value)
    def load(self, data_type=None):
        self._value = self.path.read_text()

class Notes(Task):
    class Meta:
        data_class = TextData
    def run(self) -> str:
        RUNS.append('notes')
        return 'three rows'

class Raw(Task):
    def run(self) -> dict:
        RUNS.append('raw')
        return {'rows': [1, 2, 3]}

class Rows(Task):
    class Meta:
        input_tasks = [Raw]
    def run(self, raw) -> Table:
        RUNS.append('rows')
        return Table(raw['rows'])

class Report(Task):
    class Meta:
        input_tasks = [Rows, Notes]
    def run(self, rows, notes) -> dict:
        RUNS.append('report')
        return {'n': len(rows), 'notes': notes}
'''


class InspectionRunsNothing(Suite):
    """a chain that holds a task whose data class takes constructor arguments (its objects are made by run): task tables,
    has_data, paths, run info, logs and readable links of every task - whatever they answer or raise for that task -
    execute no run; requesting a value afterwards runs what is needed, once.  Runtime check only."""
    name = 'inspection_of_custom_data_classes'
    model = ''
    CALLS = ('tasks_df', 'has_data', 'data_path', 'run_info', 'log', 'create_readable_filenames')

    def gen(self, rng, tier):
        return [dict(call=c, computed=k) for c in self.CALLS for k in (False, True)]

    def run_impl(self, case):
        import sys, types
        from pathlib import Path
        from taskchain import Config
        from .. import pipeline as pl
        with pl.workspace(dict(classes=[], files={})) as (d, _):
            name = 'tcv_customdata'
            m = types.ModuleType(name)
            sys.modules[name] = m
            try:
                exec(compile(CUSTOM_SRC, name, 'exec'), m.__dict__)

                def chain():
                    return Config(Path('data'), name='c', data={'tasks': [f'{name}.*']}).chain()
                if case['computed']:
                    _ = chain()['report'].value
                m.RUNS.clear()
                ch = chain()
                answers = {}
                for n, t in ch.tasks.items():
                    try:
                        if case['call'] == 'tasks_df':
                            answers[n] = str(type(ch.tasks_df).__name__)
                        elif case['call'] == 'create_readable_filenames':
                            ch.create_readable_filenames(name='c')
                            answers[n] = 'ok'
                        else:
                            answers[n] = str(getattr(t, case['call']))[:60]
                    except Exception as e:
                        answers[n] = f'raised {type(e).__name__}'
                ran = list(m.RUNS)
                m.RUNS.clear()
                v = chain()['report'].value
                ran_value = list(m.RUNS)
                m.RUNS.clear()
                notes = chain()['notes'].value       # by now stored in every history: a new chain loads it
                return dict(answers=answers, ran=ran, value=v, ran_value=ran_value, notes=notes, ran_notes=list(m.RUNS))
            finally:
                sys.modules.pop(name, None)

    def oracle(self, case, obs):
        if 'unexpected_exception' in obs:
            return f'unexpected exception {obs["unexpected_exception"]}: {obs["text"]}'
        if obs['ran']:
            return f'{case}: inspecting the chain ({case["call"]}) executed {obs["ran"]}'
        if obs['value'] != {'n': 3, 'notes': 'three rows'}:
            return f'{case}: report yields {obs["value"]}'
        if any(obs['ran_value'].count(n) > 1 for n in ('raw', 'rows', 'report', 'notes')):
            return f'{case}: the request ran a task twice: {obs["ran_value"]}'
        if obs['notes'] != 'three rows' or obs['ran_notes']:
            return (f'{case}: the stored result of `notes` (a data class of the user\'s own whose load() returns nothing) requested by a new '
                    f'chain yields {obs["notes"]!r} and ran {obs["ran_notes"]}')
        # a stored result of a data class that can be made without arguments is loaded, by a new chain too
        if case['computed'] and ('notes' in obs['ran_value'] or 'report' in obs['ran_value'] or 'raw' in obs['ran_value']):
            return f'{case}: everything was computed and stored by an earlier chain; the request of a new chain ran {obs["ran_value"]}'
        return None

    def nontrivial(self, case, obs):
        return True

    def key(self, case):
        return repr(case)


CONTAINER_SRC = '''
from taskchain import Task, Parameter
from taskchain.data import InMemoryData, JSONData

RUNS = []

class Bag(InMemoryData):        # a container made by run: it has a length, and an empty one is falsy
    def __init__(self):
        super().__init__()
        self.rows = []
    def __len__(self):
        return len(self.rows)

class Items(Task):
    class Meta:
        parameters = [Parameter('n')]
    def run(self, n) -> Bag:
        RUNS.append('items')
        d = Bag()
        d.rows = list(range(n))
        d.set_value(d.rows)
        return d

class Count(Task):
    class Meta:
        input_tasks = [Items]
    def run(self, items) -> dict:
        RUNS.append('count')
        return {'n': len(items)}

class Total(Task):
    class Meta:
        input_tasks = [Items, Count]
    def run(self, items, count) -> dict:
        RUNS.append('total')
        return {'sum': sum(items), 'n': count['n']}
'''


class ContainerData(Suite):
    """a task whose run returns a container data object of its own class (kept in memory, with a length - the empty one is
    falsy): asked several times on the same object, by two consumers and directly afterwards, it runs once, whether the
    container is empty or not.  Runtime check only."""
    name = 'container_data_objects'
    model = ''

    def gen(self, rng, tier):
        return [dict(n=n, order=o) for n in (0, 1, 3) for o in (['items', 'items', 'count', 'total', 'items'], ['total', 'count', 'items', 'items'],
                                                                   ['count', 'items', 'total'])]

    def run_impl(self, case):
        import sys, types
        from pathlib import Path
        from taskchain import Config
        from .. import pipeline as pl
        with pl.workspace(dict(classes=[], files={})) as (d, _):
            name = 'tcv_container'
            m = types.ModuleType(name)
            sys.modules[name] = m
            try:
                exec(compile(CONTAINER_SRC, name, 'exec'), m.__dict__)
                ch = Config(Path('data'), name='c', data={'tasks': [f'{name}.*'], 'n': case['n']}).chain()
                vals = []
                for t in case['order']:
                    v = ch[t].value
                    vals.append(list(v) if t == 'items' else v)
                return dict(vals=vals, runs=list(m.RUNS))
            finally:
                sys.modules.pop(name, None)

    def oracle(self, case, obs):
        if 'unexpected_exception' in obs:
            return f'unexpected exception {obs["unexpected_exception"]}: {obs["text"]}'
        n = case['n']
        want = {'items': list(range(n)), 'count': {'n': n}, 'total': {'sum': sum(range(n)), 'n': n}}
        for t, v in zip(case['order'], obs['vals']):
            if v != want[t]:
                return f'{case}: {t} yields {v}, expected {want[t]}'
        for t in ('items', 'count', 'total'):
            if obs['runs'].count(t) > 1 or (t in case['order'] and obs['runs'].count(t) != 1):
                return f'{case}: runs {obs["runs"]}; every task asked for runs once on its task object'
        return None

    def nontrivial(self, case, obs):
        return True

    def key(self, case):
        return repr(case)


class C04(Prop):
    pid = 'C04'
    suites = [Plain(), Mixed(), DataKinds(), ReadableLinks(), OnDemandInputs(), NameModeNeighbours(), SharedRegistry(), InspectionRunsNothing(), ContextNeutral(), ContainerData()]
    assumptions = ['one-shot data classes (JSON, in-memory); resumable ContinuesData is re-run by design until finished()']


PROP = C04()
