"""C05 - a result is visible only when complete (failure and crash atomicity).

Fault enumeration on the implementation: the computing process runs under an audit hook that snapshots
the data directory immediately before every file-system operation (crash points), torn variants of every
file being written are added, and every snapshot is opened by a fresh process that records has_data, the
value (or the error), the run count and whether a second request recovers."""
import json
import os
import shutil
import sys
import tempfile
import types
from pathlib import Path

from ..core import Prop, Suite
from ..suites_hist import Histories
from ..coqlit import cbool, clist, cnat, cpair, cstr
from .c06 import in_child, describe

DIRKINDS = ('listnumpy', 'dir', 'continues')
KINDS = ['json', 'numpy', 'pandas', 'generated', 'generated_lazy', 'listnumpy', 'dir', 'continues']
WRITE_EVENTS = {'os.mkdir', 'os.rename', 'os.remove', 'os.rmdir', 'shutil.rmtree', 'shutil.move', 'os.unlink', 'os.replace',
                'shutil.copyfile', 'os.truncate'}


EXTS = {'json': 'json', 'numpy': 'npy', 'pandas': 'pd', 'generated': 'jsonl', 'generated_lazy': 'jsonl'}


def describe_result(kind, v):
    """directory results are described by what they contain"""
    if kind in ('dir', 'continues'):
        root = Path(v)
        return {str(p.relative_to(root)): (p.read_text() if p.is_file() else None) for p in sorted(root.rglob('*'))
                if p.name != 'stale.txt'}
    return describe(v)


def normalise(trace, kind):
    """the observed file-system events, in the vocabulary of the model (Crash.v)"""
    ops = []

    def role(path):
        parts = Path(path).parts
        for i, c in enumerate(parts):
            stem = c.split('.')[0]
            for suffix, r in (('_tmp', 'Tmp'), ('_old', 'Old'), ('_error', 'Err')):
                if stem.endswith(suffix) and len(stem) > 32:
                    return r, i == len(parts) - 1
            if len(stem) >= 32 and all(ch in '0123456789abcdef' for ch in stem[:32]) and '_' not in stem:
                return 'Final', i == len(parts) - 1
        return None, False
    deleting = None
    for ev in trace:
        tag, args = ev[0], ev[1:]
        if deleting is not None:
            if tag == 'os.rmdir' and args and role(args[0]) == (deleting, True):
                ops.append(f'EndDelete {deleting}')
                deleting = None
            continue
        if not args:
            continue
        r, top = role(args[0])
        if r is None:
            continue
        if not top:
            # something inside the work directory: part of filling it
            if not ops or not ops[-1].startswith('Fill'):
                ops.append(f'Fill {r} 2')
            continue
        if tag == 'open':
            ops += [f'Create {r}', f'Fill {r} 2']
        elif tag == 'os.mkdir':
            ops.append(f'Create {r}')
        elif tag == 'os.rename':
            ops.append(f'Rename {r} {role(args[1])[0]}')
        elif tag == 'shutil.move':
            continue
        elif tag == 'shutil.rmtree':
            ops.append(f'StartDelete {r}')
            deleting = r
        else:
            ops.append(f'Unknown{tag.replace(".", "_")} {r}')
    return ops


def task_source(kind, flag=False):
    ret = {'json': 'dict', 'numpy': 'np.ndarray', 'pandas': 'pd.DataFrame', 'generated': 'Generator',
           'generated_lazy': 'GeneratedDataLazy', 'listnumpy': 'list', 'dir': 'DirData', 'continues': 'ContinuesData'}[kind]
    body = {
        'json': "return {} if _S.get('empty') else {'v': [1, 2, 3], 's': 'x' * 50, 'run': _S['run']}",
        'numpy': "return np.arange(0 if _S.get('empty') else 40, dtype='int64') + _S['run']",
        'pandas': "return pd.DataFrame({'a': list(range(20)), 'r': [_S['run']] * 20})",
        'generated': "return ({'i': i, 'run': _S['run'], **({'s\\u2029': 'a\\u2028b\\x85c\\x0bd\\x0ce\\x1cf\\x1e'} if _S.get('special') else {})} for i in range(0 if _S.get('empty') else 2300 if _S.get('big') == 'huge' else 230 if _S.get('big') else 6))",
        'generated_lazy': "d = self.get_data_object(); d.set_value([{'i': i, 'run': _S['run'], **({'s\\u2029': 'a\\u2028b\\x85c\\x0bd\\x0ce\\x1cf\\x1e'} if _S.get('special') else {})} for i in range(0 if _S.get('empty') else 6)]); return d",
        'listnumpy': "return [np.arange(5) + i + _S['run'] for i in range(0 if _S.get('empty') else 12 if _S.get('big') else 3)]",
        'dir': "d = self.get_data_object()\n        (d.dir / 'a.txt').write_text('A' * 30 + str(_S['run']))\n        if _S.get('selfquery'):\n            _ = (self.has_data, self.data_path, self.run_info, self.log)\n        if _S.get('extra'):\n            (d.dir / 'extra.txt').write_text('E')\n        if _S['fault'] == 'raise_midway':\n            raise RuntimeError('boom midway')\n        (d.dir / 'sub').mkdir()\n        (d.dir / 'sub' / 'b.txt').write_text('B' * 30)\n        return d",
        'continues': "d = self.get_data_object()\n        (d.dir / 'part1').write_text('P1-' + str(_S['run']))\n        if _S['fault'] == 'raise_midway':\n            raise RuntimeError('boom midway')\n        (d.dir / 'part2').write_text('P2')\n        d.finished()\n        return d",
    }[kind]
    extra = '        data_class = ListOfNumpyData\n' if kind == 'listnumpy' else ''
    if flag:        # "accept whatever run returns": allowed for results kept in memory only, refused for persisting ones
        extra += '        ignore_return_type_mismatch = True\n'
    return ('from typing import Generator\nimport numpy as np\nimport pandas as pd\nfrom taskchain import Task\n'
            'from taskchain.data import DirData, ContinuesData, ListOfNumpyData, GeneratedDataLazy\n'
            'class Victim(Task):\n    class Meta:\n        task_group = "c05"\n' + extra +
            f'    def run(self) -> {ret}:\n        _S["runs"] += 1\n        if _S["fault"] == "raise":\n            raise RuntimeError("boom")\n'
            f'        if _S["fault"] == "interrupt":\n            raise KeyboardInterrupt()\n'
            f'        if _S["fault"] == "mistyped":\n            return 12345\n'
            f'        if _S["fault"] == "mistyped_iterable":\n            return {{"a": 1, "b": 2}}\n'
            f'        if _S["fault"] == "unserializable":\n            return _S["bad"]\n        {body}\n')


def make_module(kind, state):
    name = 'tcv_dyn_c05'
    m = types.ModuleType(name)
    m.__dict__['_S'] = state
    sys.modules[name] = m
    exec(compile(task_source(kind, bool(state.get('flag'))), name, 'exec'), m.__dict__)
    m.Victim.__module__ = name
    return m


def the_chain(m, root):
    from taskchain import Config
    return Config(Path(root), name='cfg', data={'tasks': [m.Victim]}).chain()


def bad_value(kind):
    import numpy as np
    return {'json': {'x': {1, 2}}, 'generated': (x for x in [{'ok': 1}, {2, 3}]), 'numpy': None, 'pandas': None}.get(kind)


class Faults(Suite):
    """runtime matter (real file system, process death): harness-only enumeration"""
    name = 'crash_and_fault_points'
    model = ''

    def gen(self, rng, tier):
        out = []
        for kind in KINDS:
            for forced in (False, True):
                for leftover in (('none', 'tmp', 'old', 'both') if kind in DIRKINDS else ('none', 'tmp')):
                    out.append(dict(kind=kind, forced=forced, fault='crash', leftover=leftover))
            for fault in ('raise', 'interrupt', 'mistyped', 'unserializable', 'mistyped_iterable', 'raise_midway'):
                if fault == 'unserializable' and kind not in ('json', 'generated'):
                    continue
                if fault == 'mistyped' and kind in ('generated', 'generated_lazy'):
                    continue
                if fault == 'mistyped_iterable' and kind not in ('generated', 'numpy', 'pandas'):
                    continue
                if fault == 'raise_midway' and kind not in ('dir', 'continues'):
                    continue
                for forced in ((False, True) if fault == 'raise_midway' else (rng.random() < 0.5,)):
                    out.append(dict(kind=kind, forced=forced, fault=fault))
                    if kind == 'dir' and fault in ('raise', 'raise_midway'):
                        out.append(dict(kind=kind, forced=forced, fault=fault, leftover='error'))     # a second failure
        # results of many parts (more than ten arrays, hundreds of rows) and rows that hold the characters which some text
        # functions take for line ends (U+2028, U+2029, U+0085, VT, FF, FS..RS): complete, or not there
        out += [dict(kind=k, forced=f, fault='crash', leftover='none', big=True) for k in ('listnumpy', 'generated') for f in (False, True)]
        out += [dict(kind=k, forced=False, fault=ft, leftover='none', special=True) for k in ('generated', 'generated_lazy') for ft in ('crash', 'raise')]
        # a directory task that asks about itself in the middle of run (a progress line with self.has_data, self.log ...)
        out += [dict(kind='dir', forced=f, fault=ft, leftover='none', selfquery=True) for f in (False, True) for ft in ('crash', 'raise_midway')]
        # thousands of rows
        out += [dict(kind='generated', forced=False, fault='crash', leftover='none', big='huge')]
        # a task that says `ignore_return_type_mismatch` and persists its result: a value of another type is refused, nothing is stored
        out += [dict(kind=k, forced=f, fault=ft, flag=True) for k in ('json', 'numpy', 'pandas') for f in (False, True)
                for ft in ('mistyped', 'mistyped_iterable') if not (ft == 'mistyped_iterable' and k == 'json')]
        return out

    def run_impl(self, case):
        kind = case['kind']
        tmp = tempfile.mkdtemp(prefix='tcverif-c05-')
        old = os.getcwd()
        try:
            os.chdir(tmp)
            state = dict(run=0, runs=0, fault=None, bad=None, big=case.get('big'), special=case.get('special'), flag=case.get('flag'), selfquery=case.get('selfquery'))
            m = make_module(kind, state)

            def first():
                state['run'] = 1
                v = the_chain(m, 'data')['c05:victim'].value
                return dict(value=describe_result(kind, v))
            if case['forced']:
                a = in_child(first)
                if 'child_error' in a:
                    return dict(setup_error=a['child_error'])

            def faulty():
                snaps = []
                busy = [False]
                root = os.path.abspath('data')

                def snap(tag, path=None):
                    if busy[0]:
                        return
                    busy[0] = True
                    try:
                        k = len(snaps)
                        if os.path.exists(root):
                            shutil.copytree(root, f'snap/{k}', symlinks=True)
                        else:
                            os.makedirs(f'snap/{k}')
                        snaps.append([tag, path])
                    finally:
                        busy[0] = False

                def hook(event, args):
                    if busy[0]:
                        return
                    try:
                        if event == 'open' and isinstance(args[0], (str, bytes, os.PathLike)) and args[1] and any(c in str(args[1]) for c in 'wax+'):
                            p = os.path.abspath(os.fspath(args[0]))
                            if p.startswith(root) and not p.endswith(('.log', '.run_info.yaml')):
                                snap('open', [p])
                        elif event in WRITE_EVENTS:
                            # also relative names with dir_fd (shutil.rmtree): the process touches nothing but the data dir
                            ps = [os.fspath(a) for a in args if isinstance(a, (str, bytes, os.PathLike))]
                            snap(event, [str(x) for x in ps])
                    except Exception:
                        pass
                os.makedirs('snap', exist_ok=True)
                state['run'] = 2
                state['fault'] = None if case['fault'] == 'crash' else case['fault']
                state['bad'] = bad_value(kind)
                ch = the_chain(m, 'data')
                t = ch['c05:victim']
                if case['forced']:
                    t.force()
                # what an earlier, killed attempt may have left behind
                plant_leftovers(t, kind, case.get('leftover', 'none'))
                sys.addaudithook(hook)
                # a process can also die right AFTER a rename returned (before a buffer is flushed, a handle closed):
                # the state of the directory at that instant is a crash state too
                for fname in ('replace', 'rename'):
                    def wrapped(*a, _orig=getattr(os, fname), _tag=f'after:os.{fname}', **k):
                        r = _orig(*a, **k)
                        snap(_tag, [str(x) for x in a if isinstance(x, (str, bytes, os.PathLike))])
                        return r
                    setattr(os, fname, wrapped)
                try:
                    v = t.value
                    res = dict(value=describe_result(kind, v))
                except BaseException as e:      # also an interrupt (Ctrl-C in a notebook) inside run
                    res = dict(error=type(e).__name__)
                busy[0] = True
                shutil.copytree(root, f'snap/final', symlinks=True) if os.path.exists(root) else os.makedirs('snap/final')
                after = sorted(p.name for p in t.path.iterdir()) if t.path.exists() else []
                # the fault is gone: the same task object, and a new chain in the same process, recover
                state['run'], state['fault'] = 3, None
                same = {}
                if case['fault'] != 'crash':
                    for tag, task in (('same_object', t), ('same_process', None)):
                        try:
                            task = task or the_chain(m, 'data')['c05:victim']
                            same[tag] = dict(value=describe_result(kind, task.value))
                        except Exception as e:
                            same[tag] = dict(error=f'{type(e).__name__}: {e}'[:160])
                # later looks at the task (a new task object asks has_data, loads the value) leave what was set aside alone
                fresh = the_chain(m, 'data')['c05:victim']
                _ = fresh.has_data
                try:
                    _ = fresh.value
                except Exception:
                    pass
                after_look = sorted(p.name for p in t.path.iterdir()) if t.path.exists() else []
                return dict(res, snaps=snaps, after_fault=after, after_look=after_look, **same)
            b = in_child(faulty)
            if 'child_error' in b:
                return dict(setup_error=b['child_error'])
            # what an undisturbed computation yields (reference), for run numbers 1, 2, 3
            def reference(n):
                def f():
                    state['run'], state['fault'] = n, None
                    return dict(value=describe_result(kind, the_chain(m, f'ref{n}')['c05:victim'].value))
                return in_child(f)
            refs = {n: reference(n).get('value') for n in (1, 2, 3)}
            # crash states: every snapshot, plus torn variants of every file opened for writing
            states = []
            for k, (tag, path) in enumerate(b['snaps']):
                states.append((f'before#{k}:{tag}', f'snap/{k}'))
                if tag == 'open' and path:
                    path = path[0]
                    rel = os.path.relpath(path, os.path.abspath('data'))
                    fin = Path('snap/final') / rel
                    nxt = Path(f'snap/{k + 1}') / rel if k + 1 < len(b['snaps']) else fin
                    src = nxt if nxt.exists() and nxt.is_file() else fin
                    content = src.read_bytes() if src.exists() and src.is_file() else b''
                    for cut in sorted({0, 1, len(content) // 2, max(len(content) - 1, 0)}):
                        if cut >= len(content) and content:
                            continue
                        d = f'torn/{k}_{cut}'
                        shutil.copytree(f'snap/{k}', d, symlinks=True)
                        tp = Path(d) / rel
                        tp.parent.mkdir(parents=True, exist_ok=True)
                        tp.write_bytes(content[:cut])
                        states.append((f'torn#{k}:{rel}[:{cut}]', d))
            if case['fault'] != 'crash':
                states = [('after-fault', 'snap/final')]
            recoveries = []
            for label, d in states:
                def recover(d=d):
                    state['run'], state['fault'], state['runs'] = 3, None, 0
                    t = the_chain(m, d)['c05:victim']
                    out = dict(has=bool(t.has_data))
                    out['work_after_query'] = sorted(str(p.relative_to(d)) for p in Path(d).rglob('*') if '_tmp' in str(p))
                    try:
                        out['value'] = describe_result(kind, t.value)
                    except Exception as e:
                        out['error'] = f'{type(e).__name__}: {e}'[:160]
                    out['runs'] = state['runs']
                    try:
                        t2 = the_chain(m, d)['c05:victim']
                        out['again'] = describe_result(kind, t2.value)
                    except Exception as e:
                        out['again_error'] = f'{type(e).__name__}'
                    out['listing'] = sorted(str(p.relative_to(d)) for p in Path(d).rglob('*'))
                    return out
                r = in_child(recover)
                recoveries.append(dict(label=label, **r))
            return dict(outcome={k: v for k, v in b.items() if k != 'snaps'}, events=[s[0] for s in b['snaps']], trace=[[s[0]] + [os.path.relpath(x, os.path.abspath('data')) if os.path.isabs(x) else x for x in (s[1] or [])] for s in b['snaps']], refs=refs,
                        recoveries=recoveries)
        finally:
            os.chdir(old)
            sys.modules.pop('tcv_dyn_c05', None)
            shutil.rmtree(tmp, ignore_errors=True)

    def oracle(self, case, obs):
        if 'unexpected_exception' in obs:
            return f'unexpected exception {obs["unexpected_exception"]}: {obs["text"]}'
        if 'setup_error' in obs:
            return f'harness could not set the scenario up: {obs["setup_error"]}'
        refs = obs['refs']
        complete = [refs[1], refs[2], refs[3]]
        # what an undisturbed run leaves in a directory result, said here and not taken from the implementation
        if case['kind'] == 'dir':
            for n in (1, 2, 3):
                if not (isinstance(refs[n], dict) and refs[n].get('a.txt') == 'A' * 30 + str(n) and refs[n].get('sub/b.txt') == 'B' * 30):
                    return f'{case}: an undisturbed run number {n} of the directory task yields {json.dumps(refs[n])[:200]}; it wrote a.txt and sub/b.txt'
        where0 = f'{case["kind"]}, {"forced recomputation" if case["forced"] else "first computation"}, {case["fault"]}'
        if case['fault'] != 'crash':
            out = obs['outcome']
            if 'error' not in out:
                return f'{where0}: the faulty computation returned {json.dumps(out.get("value"))[:120]} instead of failing'
            for tag in ('same_object', 'same_process'):
                r = out.get(tag, {})
                if 'error' in r:
                    return f'{where0}: after the fault is gone, requesting the value again ({tag.replace("_", " ")}) fails: {r["error"]}'
                if r.get('value') not in complete:
                    return f'{where0}: after the fault is gone, {tag.replace("_", " ")} yields {json.dumps(r.get("value"))[:160]}, not a complete value'
            names = out.get('after_fault', [])
            gone = [n for n in names if n.endswith('_error') and n not in out.get('after_look', names)]
            if gone:
                return (f'{where0}: the work directory set aside after the failure ({gone}) was removed by a later look at the task '
                        f'(has_data / value of a new task object): {out.get("after_look")}')
            if case['kind'] == 'dir':
                if not any(n.endswith('_error') for n in names) or any(n.endswith('_tmp') for n in names):
                    return f'{where0}: the work directory of the failed run was not set aside ({names})'
            if case['kind'] == 'continues' and case['fault'] in ('raise', 'raise_midway') and not any(n.endswith('_tmp') for n in names):
                return f'{where0}: the work directory of the resumable task was not kept ({names})'
            if case['kind'] == 'continues' and case['fault'] == 'raise_midway':
                for r in obs['recoveries']:
                    if not any(p.endswith('_tmp/part1') for p in r.get('work_after_query', [])):
                        return (f'{where0}: after the interrupted run a later chain that merely asks has_data finds the work '
                                f'directory without the part already written ({r.get("work_after_query")}): it is kept for '
                                f'continuation until finished')
        for r in obs['recoveries']:
            where = f'{case["kind"]}, {"forced recomputation" if case["forced"] else "first computation"}, {case["fault"]}, state {r["label"]}'
            if 'child_error' in r:
                return f'{where}: recovery process died: {r["child_error"]}'
            if 'error' in r:
                return f'{where}: has_data={r["has"]} and requesting the value fails with {r["error"]}'
            if complete is not None and r['value'] not in complete:
                return f'{where}: a later chain gets {json.dumps(r["value"])[:200]}, which no complete run produced'
            if r['has'] and r['runs'] != 0:
                return f'{where}: has_data was True but the value had to be recomputed'
            if 'again_error' in r or r.get('again') != r['value']:
                return f'{where}: requesting the value again does not recover'
        return None

    def nontrivial(self, case, obs):
        return len(obs.get('recoveries', [])) >= 2

    def key(self, case):
        return repr(case)

    def distribution(self, cases, obs):
        d = dict(recoveries=0, crash_states=0, torn_states=0, events={})
        for c, o in zip(cases, obs):
            for r in o.get('recoveries', []):
                d['recoveries'] += 1
                d['crash_states'] += r['label'].startswith('before')
                d['torn_states'] += r['label'].startswith('torn')
            for e in o.get('events', []):
                d['events'][e] = d['events'].get(e, 0) + 1
        return d


def plant_leftovers(t, kind, left):
    base, key = t.path, t.name_for_persistence
    base.mkdir(parents=True, exist_ok=True)
    if left in ('tmp', 'both'):
        if kind in DIRKINDS:
            (base / f'{key}_tmp').mkdir()
            (base / f'{key}_tmp' / 'stale.txt').write_text('stale')
        else:
            (base / f'{key}_tmp.{EXTS[kind]}').write_bytes(b'\x00stale')
    if left in ('old', 'both'):
        (base / f'{key}_old').mkdir()
        (base / f'{key}_old' / 'stale.txt').write_text('stale')
    if left == 'error':
        # the work directory of an earlier failed attempt, set aside with what that attempt had written
        (base / f'{key}_error').mkdir()
        (base / f'{key}_error' / 'a.txt').write_text('from the first failure')


class Traces(Suite):
    """the sequence of file-system operations by which each data class publishes a result, against save_trace"""
    name = 'publication_traces'
    imports = 'Crash'
    in_type = '(kind * (bool * (bool * bool)))%type'
    out_type = 'list op'
    eqb = 'ops_eqb'
    model = 'observed_trace'
    shard = 200

    def gen(self, rng, tier):
        return [dict(kind=k, forced=f, leftover=l) for k in KINDS for f in (False, True)
                for l in (('none', 'tmp', 'old', 'both') if k in DIRKINDS else ('none', 'tmp'))]

    def run_impl(self, case):
        kind = case['kind']
        tmp = tempfile.mkdtemp(prefix='tcverif-c05t-')
        old = os.getcwd()
        try:
            os.chdir(tmp)
            state = dict(run=1, runs=0, fault=None, bad=None)
            m = make_module(kind, state)
            if case['forced']:
                a = in_child(lambda: dict(value=describe_result(kind, the_chain(m, 'data')['c05:victim'].value)))
                if 'child_error' in a:
                    return dict(setup_error=a['child_error'])

            def traced():
                events = []
                root = os.path.abspath('data')

                def hook(event, args):
                    if event == 'open' and isinstance(args[0], (str, bytes, os.PathLike)) and args[1] and any(c in str(args[1]) for c in 'wax+'):
                        p = os.path.abspath(os.fspath(args[0]))
                        if p.startswith(root) and not p.endswith(('.log', '.run_info.yaml')):
                            events.append(['open', p])
                    elif event in WRITE_EVENTS:
                        events.append([event] + [str(os.fspath(a)) for a in args if isinstance(a, (str, bytes, os.PathLike))])
                state['run'] = 2
                t = the_chain(m, 'data')['c05:victim']
                if case['forced']:
                    t.force()
                plant_leftovers(t, kind, case['leftover'])
                sys.addaudithook(hook)
                v = t.value
                done = list(events)
                return dict(events=done, value=describe_result(kind, v))
            b = in_child(traced)
            if 'child_error' in b:
                return dict(setup_error=b['child_error'])
            return dict(ops=normalise(b['events'], kind), events=b['events'])
        finally:
            os.chdir(old)
            sys.modules.pop('tcv_dyn_c05', None)
            shutil.rmtree(tmp, ignore_errors=True)

    def encode(self, case, obs):
        k = {'dir': 'KDir', 'listnumpy': 'KDir', 'continues': 'KCont'}.get(case['kind'], 'KFile')
        left = case['leftover']
        i = f'({k}, ({cbool(case["forced"])}, ({cbool(left in ("tmp", "both"))}, {cbool(left in ("old", "both"))})))'
        return i, '[' + '; '.join(obs.get('ops', ['Create Err'])) + ']'

    def oracle(self, case, obs):
        if 'setup_error' in obs:
            return f'harness could not set the scenario up: {obs["setup_error"]}'
        ops = obs['ops']
        # whatever the order of the rest: nothing is ever created or filled under the final name, and the final
        # name only ever receives a complete work copy by one rename
        for o in ops:
            if o.startswith(('Create Final', 'Fill Final', 'Unknown')):
                return f'{case}: the result is written in place ({o}); events {obs["events"]}'
        return None

    def nontrivial(self, case, obs):
        return len(obs.get('ops', [])) >= 3

    def key(self, case):
        return repr(case)

    def distribution(self, cases, obs):
        d = {}
        for o in obs:
            for x in o.get('ops', []):
                d[x] = d.get(x, 0) + 1
        return d


RESUMABLE_SRC = '''
from taskchain import Task
from taskchain.data import ContinuesData

class Steps(Task):              # one step per call of run; the result is finished with the third step
    class Meta:
        task_group = "c05"
    def run(self) -> ContinuesData:
        d = self.get_data_object()
        done = sorted(p.name for p in d.dir.iterdir())
        (d.dir / f"step{len(done) + 1}").write_text(str(self.get_config().name))
        if len(done) + 1 >= 3:
            d.finished()
        return d
'''


class ResumableSteps(Suite):
    """a resumable (ContinuesData) task that needs several calls of run before it calls finished(): between the calls
    the task object that ran, a new chain and a new process all agree that there is no result yet (has_data False, the
    work directory with the steps done so far is kept), and after the last step all agree that there is one.
    Runtime check only."""
    name = 'resumable_steps'
    model = ''

    def gen(self, rng, tier):
        return [dict(ask=a) for a in ('same_object', 'new_chain', 'new_process')] + \
               [dict(ask='new_chain', names=n) for n in (['model.v1', 'model.v2'], ['run', 'run_2'], ['a.b.c', 'a.b.d'])]

    def run_impl(self, case):
        tmp = tempfile.mkdtemp(prefix='tcverif-c05r-')
        old = os.getcwd()
        try:
            os.chdir(tmp)
            name = 'tcv_dyn_c05r'
            m = types.ModuleType(name)
            sys.modules[name] = m
            exec(compile(RESUMABLE_SRC, name, 'exec'), m.__dict__)
            m.Steps.__module__ = name

            def chain():
                from taskchain import Config
                return Config(Path('data'), name='cfg', data={'tasks': [m.Steps]}).chain()

            def named(n):
                from taskchain import Config
                return Config(Path('data'), name=n, data={'tasks': [m.Steps]}).chain(parameter_mode=False)['c05:steps']

            def two_names():
                # by config name: the first configuration is left unfinished after one step, the second one is finished,
                # then the first one goes on
                a, b = case['names']
                content = lambda p: {q.name: q.read_text() for q in sorted(Path(p).iterdir())}
                named(a).value
                for _ in range(3):
                    vb = named(b).value
                rb = dict(has=bool(named(b).has_data), steps=content(vb))
                calls = 0
                while not named(a).has_data and calls < 5:
                    va = named(a).value
                    calls += 1
                return dict(second=rb, first=dict(calls=calls, steps=content(va), has=bool(named(a).has_data)),
                            second_after=content(named(b).value))
            if case.get('names'):
                return in_child(two_names)

            def scenario():
                out = []
                for step in (1, 2, 3):
                    t = chain()['c05:steps']
                    v = t.value
                    if case['ask'] == 'same_object':
                        has = bool(t.has_data)
                    elif case['ask'] == 'new_chain':
                        has = bool(chain()['c05:steps'].has_data)
                    else:
                        has = in_child(lambda: dict(has=bool(chain()['c05:steps'].has_data))).get('has')
                    out.append(dict(step=step, has=has, listing=sorted(str(p.relative_to('data')) for p in Path('data').rglob('*'))))
                return dict(steps=out)
            return in_child(scenario)
        finally:
            os.chdir(old)
            sys.modules.pop('tcv_dyn_c05r', None)
            shutil.rmtree(tmp, ignore_errors=True)

    def oracle(self, case, obs):
        if 'unexpected_exception' in obs:
            return f'unexpected exception {obs["unexpected_exception"]}: {obs["text"]}'
        if 'child_error' in obs:
            return f'{case}: {obs["child_error"]}'
        if case.get('names'):
            a, b = case['names']
            wb, wa = {f'step{i}': b for i in (1, 2, 3)}, {f'step{i}': a for i in (1, 2, 3)}
            if not obs['second']['has'] or obs['second']['steps'] != wb:
                return (f'{case}: {b} was given three calls of run while {a} was unfinished; its result holds {obs["second"]}, '
                        f'its own three steps are {wb}')
            if obs['first'] != dict(calls=2, steps=wa, has=True):
                return (f'{case}: {a} had done one step before {b} was computed; going on it took {obs["first"]["calls"]} more calls and '
                        f'holds {obs["first"]["steps"]}; expected 2 calls and {wa}')
            if obs['second_after'] != wb:
                return f'{case}: finishing {a} changed the result of {b}: {obs["second_after"]}'
            return None
        for s in obs['steps']:
            want = s['step'] == 3
            if s['has'] != want:
                return (f'{case}: after step {s["step"]} of 3 has_data is {s["has"]} ({case["ask"].replace("_", " ")}); the result is '
                        f'{"finished" if want else "not finished"}: {s["listing"]}')
            if not want and not any(p.endswith(f'_tmp/step{s["step"]}') for p in s['listing']):
                return f'{case}: after step {s["step"]} the work directory does not hold the steps done so far: {s["listing"]}'
        return None

    def nontrivial(self, case, obs):
        return True

    def key(self, case):
        return repr(case)


H5_SRC = '''
import numpy as np
from taskchain import Task
from taskchain.data import H5Data

PLAN = [None]          # this attempt dies after that many further appends reached the file, before the commit (None: never)
BATCHES = [[]]         # the batches of rows the task stores
ALWAYS_POSITION = [True]

class Rows(Task):               # appends batches of rows; the number of committed rows is kept beside the data file
    class Meta:
        task_group = "c05"
    def run(self) -> H5Data:
        d = self.get_data_object()
        progress = d.dir / "committed.txt"
        done, committed = [int(x) for x in progress.read_text().split()] if progress.exists() else (0, 0)
        position = committed
        for b in range(done, len(BATCHES[0])):
            rows = np.array(BATCHES[0][b], dtype="f4").reshape(-1, 2)
            with d.data_file() as f:
                ds = d.dataset("rows", f, maxshape=(None, 2))
                d.append_data(ds, rows, dataset_len=position)
            if PLAN[0] == 0:
                raise RuntimeError("killed before the commit of batch %d" % b)
            if PLAN[0] is not None:
                PLAN[0] -= 1
            committed += len(rows)
            progress.write_text("%d %d" % (b + 1, committed))
            position = committed if ALWAYS_POSITION[0] else None   # otherwise only the first append of an attempt names it
        d.finished()
        return d
'''


class ResumableRows(Suite):
    """a resumable H5Data task that appends batches of rows and commits its progress after each batch, killed any number
    of times after the rows of some batch reached the file and before their commit (also the very first batch), each time
    asked again by a new chain: the finished dataset holds exactly the rows of the batches, once, and a new process loads
    the same.  Against Model/Resume.v (resume) - whose theorem C05_resumed_rows_exact says what the result must be."""
    name = 'resumable_rows'
    imports = 'Resume'
    shard = 40
    in_type = '(bool * list (list (Z * Z)) * list (option nat))'
    out_type = 'list (Z * Z)'
    prelude = '''
Definition zz_eq_dec : forall a b : Z * Z, {a = b} + {a <> b}.
Proof. decide equality; apply Z.eq_dec. Defined.
Definition rows_model (c : bool * list (list (Z * Z)) * list (option nat)) : list (Z * Z) :=
  let '(always, batches, plans) := c in snd (resume always batches 0 [] plans).
'''
    eq_dec = '(list_eq_dec zz_eq_dec)'
    model = 'rows_model'

    def corpus(self):
        three = [[[0, 1], [0, 2]], [[1, 1], [1, 2]], [[2, 1], [2, 2]]]
        return [dict(batches=three, plans=p, always=a) for p in ([], [0], [1], [2], [0, 0], [0, 1, 0], [2, 0]) for a in (True, False)] + \
               [dict(batches=[[[5, 5]], [], [[6, 6], [7, 7], [8, 8]]], plans=[1, 0], always=False)]

    def gen(self, rng, tier):
        out = []
        for _ in range(6 if tier == 'quick' else 150):
            n = rng.choice([1, 2, 3, 4])
            batches = [[[b, k] for k in range(rng.choice([1, 2, 3]))] for b in range(n)]
            out.append(dict(batches=batches, plans=[rng.randrange(n) for _ in range(rng.choice([0, 1, 2, 3]))], always=rng.random() < 0.5))
        return out

    def run_impl(self, case):
        tmp = tempfile.mkdtemp(prefix='tcverif-c05h-')
        old = os.getcwd()
        try:
            os.chdir(tmp)
            name = 'tcv_dyn_c05h'
            m = types.ModuleType(name)
            sys.modules[name] = m
            exec(compile(H5_SRC, name, 'exec'), m.__dict__)
            m.Rows.__module__ = name

            def task():
                from taskchain import Config
                return Config(Path('data'), name='cfg', data={'tasks': [m.Rows]}).chain()['c05:rows']

            def rows(t):
                import h5py
                with h5py.File(t.value / 'data.h5', 'r') as f:
                    return f['rows'][:].tolist()

            def scenario():
                m.BATCHES[0] = case['batches']
                m.ALWAYS_POSITION[0] = case['always']
                killed, early = [], []
                for k in case['plans']:
                    m.PLAN[0] = k
                    try:
                        task().value
                        killed.append(False)
                    except RuntimeError:
                        killed.append(True)
                    early.append(bool(task().has_data))
                m.PLAN[0] = None
                t = task()
                return dict(killed=killed, early=early, rows=rows(t), has=bool(t.has_data),
                            reloaded=in_child(lambda: dict(rows=rows(task()))))
            return in_child(scenario)
        finally:
            os.chdir(old)
            sys.modules.pop('tcv_dyn_c05h', None)
            shutil.rmtree(tmp, ignore_errors=True)

    def encode(self, case, obs):
        from ..coqlit import cZ, cbool, clist, cnat, cpair
        rows = lambda rs: clist([cpair(cZ(int(r[0])), cZ(int(r[1]))) for r in rs])
        i = cpair(cbool(case['always']), clist([rows(b) for b in case['batches']]),
                  clist([f'(Some {cnat(k)})' for k in case['plans']] + ['None']))
        return i, rows(obs.get('rows', [[-1, -1]]))

    def oracle(self, case, obs):
        if 'unexpected_exception' in obs:
            return f'unexpected exception {obs["unexpected_exception"]}: {obs["text"]}'
        if 'child_error' in obs:
            return f'{case}: {obs["child_error"]}'
        want = [[float(x) for x in r] for b in case['batches'] for r in b]
        if any(h and k for h, k in zip(obs['early'], obs['killed'])):
            return f'{case}: a killed attempt left a result behind (has_data True before the task was finished)'
        if obs['rows'] != want or not obs['has']:
            return f'{case}: the finished dataset holds {obs["rows"]}; the batches are {want}'
        if obs['reloaded'].get('rows') != want:
            return f'{case}: a new process loads {obs["reloaded"]}; the batches are {want}'
        return None

    def nontrivial(self, case, obs):
        return any(obs.get('killed', []))

    def key(self, case):
        return repr(case)


class FailedInputs(Histories):
    """histories in one process in which the run of an *input* fails while a dependant is requested - the input named in
    the signature of the dependant's run or read inside it, the dependant stored or kept in memory - and works again
    afterwards: the dependant's value is then computed on the same chain object, nothing half-made is visible in between
    (against Model/History.v, like the histories of C01)."""
    name = 'failed_input_histories'
    mix = 'plain'
    quick_n, thorough_n = 6, 200

    def corpus(self):
        from ..suites_chain import K, P
        out = []
        base = {'name': 'm', 'data': {'tasks': ['@M.*'], 'a': 1}}
        for runargs in (['up'], []):
            for kind in ('json', 'memory'):
                cls = [dict(K(0, 'Up', params=[P('a')]), name='up'),
                       dict(K(1, 'Down', meta_inputs=[{'cls': 0}], data=kind), name='down', runargs=runargs),
                       dict(K(2, 'Top', meta_inputs=[{'cls': 1}]), name='top', runargs=['down'])]
                ops = [{'op': 'build', 'base': base}, {'op': 'fail', 'slugs': ['up']}, {'op': 'value', 'chain': 0, 'pick': 1},
                       {'op': 'flags', 'chain': 0}, {'op': 'value', 'chain': 0, 'pick': 2}, {'op': 'value', 'chain': 0, 'pick': 1},
                       {'op': 'fail', 'slugs': []}, {'op': 'value', 'chain': 0, 'pick': 1}, {'op': 'value', 'chain': 0, 'pick': 2},
                       {'op': 'flags', 'chain': 0}, {'op': 'restart'}, {'op': 'build', 'base': base}, {'op': 'value', 'chain': 0, 'pick': 2}]
                out.append(dict(classes=cls, files={}, base=base, context=None, ops=ops))
        return out


class C05(Prop):
    pid = 'C05'
    suites = [Traces(), Faults(), ResumableSteps(), ResumableRows(), FailedInputs()]
    assumptions = ['rename/replace within one directory is atomic and a file is partial until it is closed (the operating system, '
                   'described by Crash.apply)',
                   'the theorems are about the operation sequences of Crash.trace_of; publication_traces compares them with the '
                   'file-system events the data classes actually issue (audit hook), crash_and_fault_points replays a snapshot of '
                   'every instant between two events, and torn prefixes of every file being written, in a fresh process']


PROP = C05()
