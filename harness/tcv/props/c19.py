"""C19 - test helpers compute what the real chain computes."""
import shutil
import tempfile
from pathlib import Path

from ..core import Prop, Suite
from ..coqlit import clist, cnat, cpair, cstr
from .. import pipeline as pl
from ..values import cspec, materialize, definition_of
from ..suites_chain import CONSTRUCTION_ERRORS


def deep_strip(v):
    """values without the ChainObject marker of the generated run (it is compared by the oracle, not by the model)"""
    if isinstance(v, list):
        return [deep_strip(x) for x in v]
    if isinstance(v, dict):
        return {k: deep_strip(x) for k, x in v.items() if not (k == 'h' and 't' in v and 'i' in v)}
    return v


def gen_flat_case(rng):
    """A pipeline in one in-memory config without namespaces, plus what to hand to the test helpers."""
    from ..gen_pipeline import gen_classes
    from ..suites_l0 import value_for_dtype
    classes = [c for c in gen_classes(rng, 1)]
    for c in classes:
        c.pop('doc', None)
        c['meta_inputs'] = [r for r in c['meta_inputs'] if not ('name' in r and ('~' in r['name'] or '::' in r['name']))]
        c['param_inputs'] = [i for i in c['param_inputs'] if not ('name' in i['ref'] and '::' in i['ref']['name'])]
    vals = {}
    for c in classes:
        for p in c['params']:
            if p['cfg'] not in vals and not (p['default'] is not None and rng.random() < 0.3) and rng.random() > 0.04:
                vals[p['cfg']] = None if rng.random() < 0.12 else value_for_dtype(rng, p['dtype'], rich=False, objects=False)
    anys = sorted({p['cfg'] for c in classes for p in c['params'] if p['dtype'] == 'any' and p['cfg'] in vals})
    if anys and rng.random() < 0.3:
        vals[rng.choice(anys)] = {'__auto__': 'Hooked', 'args': {'a': rng.choice([1, 'x', [2]])}}
    concrete = [c['id'] for c in classes if not c.get('abstract')]
    real = sorted(rng.sample(concrete, rng.randrange(1, len(concrete) + 1))) if concrete else []
    return dict(classes=classes, vals=vals, real=real, by_class=rng.random() < 0.5, drop_mock=rng.random() < 0.08,
                single=rng.random() < 0.5)


class Helpers(Suite):
    name = 'test_helpers'
    imports = 'Value Dict Repr Param Config Key Chain World Eval History Testing'
    shard = 25
    in_type = '(list tclass * list nat * list (str * value) * cfgdata)'
    out_type = 'value'
    prelude = '''
Definition helper_model (c : list tclass * list nat * list (str * value) * cfgdata) : value :=
  let '(classes, tasks, mocks, params) := c in
  match test_chain_values classes (provenance_run classes) tasks mocks params with
  | inr _ => VStr (lit "error")
  | inl vs => VList (map (fun nv => VList [VStr (fst nv); match snd nv with inl v => v | inr _ => VStr (lit "error") end]) vs)
  end.
'''
    eqb = 'value_eqb'
    model = 'helper_model'

    def corpus(self):
        from ..suites_chain import K, P
        # the tested task lives in a group and one of its mocked inputs has the same plain name without a group
        up = dict(K(0, 'Records', params=[P('x')]), name='records')
        down = dict(K(1, 'CleanRecords', group='clean', meta_inputs=[{'cls': 0}], params=[P('y', default=[2])]), name='records')
        deep = dict(K(2, 'DeepRecords', group='a:b', meta_inputs=[{'cls': 1}, {'cls': 0}]), name='records')
        out = []
        for by_class in (True, False):
            for single in (True, False):
                out.append(dict(classes=[up, down], vals={'x': 1}, real=[1], by_class=by_class, drop_mock=False, single=single))
                out.append(dict(classes=[up, down, deep], vals={'x': 1, 'y': 3}, real=[2], by_class=by_class, drop_mock=False,
                                single=single))
        # a class listed among the tested tasks and mocked as well: it is a mock (returns the supplied value, never runs)
        ex = dict(K(0, 'Expensive', params=[P('x')]), name='expensive')
        us = dict(K(1, 'Uses', meta_inputs=[{'cls': 0}]), name='uses')
        for by_class in (True, False):
            out.append(dict(classes=[ex, us], vals={'x': 1}, real=[0, 1], by_class=by_class, drop_mock=False, single=False, also_mock=[0]))
        # two tested tasks that read one config key with different defaults, the key not given: each uses its own default
        sa = dict(K(0, 'Sample', params=[P('size', default=[3])]), name='sample')
        sc = dict(K(1, 'Score', params=[P('size', default=[10])], meta_inputs=[{'cls': 0}]), name='score')
        for real in ([0, 1], [1, 0]):
            out.append(dict(classes=[sa, sc], vals={}, real=real, by_class=False, drop_mock=False, single=False))
        # an optional input (with a default) of one tested class, listed before a tested class whose required input is
        # neither tested nor mocked: the missing input is reported at construction, in both orders
        upm = dict(K(0, 'Upstream'), name='upstream')
        oc = dict(K(1, 'Opt', param_inputs=[dict(ref={'name': 'ghost'}, default=[7])]), name='opt')
        nd = dict(K(2, 'Needs', meta_inputs=[{'cls': 0}]), name='needs')
        for real in ([1, 2], [2, 1]):
            out.append(dict(classes=[upm, oc, nd], vals={}, real=real, by_class=False, drop_mock=True, single=False))
        # an input named by class that is neither tested nor mocked, while a task with the same plain name in some group is
        # mocked: the missing input is reported, the other task does not stand in for it
        am = dict(K(0, 'Amounts'), name='amounts')
        la = dict(K(1, 'LegacyAmounts', group='legacy'), name='amounts')
        rp = dict(K(2, 'Report', meta_inputs=[{'cls': 0}]), name='report')
        for single in (True, False):
            out.append(dict(classes=[am, la, rp], vals={}, real=[2], by_class=False, drop_mock=True, single=single))
            out.append(dict(classes=[am, la, rp], vals={}, real=[2], by_class=True, drop_mock=True, single=single))
        # inputs collected by a pattern whose members are mocked, all of them or some
        qa = dict(K(0, 'PartA', params=[P('x')]), name='part_a')
        qb = dict(K(1, 'PartB', params=[P('x')]), name='part_b')
        qc = dict(K(2, 'Collect', meta_inputs=[{'name': '~part_.*'}]), name='collect')
        # (the helper lists tested tasks before mocks: the collected order equals the real chain's for these two shapes; the
        # order in which a pattern collects is not part of the computation, see DESIGN 12.4)
        for real in ([2], [0, 2]):
            for by_class in (True, False):
                out.append(dict(classes=[qa, qb, qc], vals={'x': 1}, real=real, by_class=by_class, drop_mock=False, single=False))
        # a parameter read from another config key than its name, while a different task's parameter bears that name
        pa = dict(K(0, 'Alpha', params=[P('x')]), name='alpha')
        pb = dict(K(1, 'Beta', params=[P('x', cfg='beta_x', default=[5])], meta_inputs=[{'cls': 0}]), name='beta')
        pc = dict(K(1, 'Gamma', params=[P('x', cfg='gamma_x')], meta_inputs=[{'cls': 0}]), name='gamma')
        for real, vals, cl in (([0, 1], {'x': 1}, [pa, pb]), ([1], {'x': 1}, [pa, pb]), ([0, 1], {'x': 1, 'beta_x': 2}, [pa, pb]),
                               ([0, 1], {'x': 1}, [pa, pc])):
            for single in (True, False):
                out.append(dict(classes=cl, vals=vals, real=real, by_class=False, drop_mock=False, single=single))
        return out

    def gen(self, rng, tier):
        return [gen_flat_case(rng) for _ in range(80 if tier == 'quick' else 2000)]

    def run_impl(self, case):
        from taskchain import Config
        from taskchain.task import Task
        from taskchain.utils.testing import TestChain, create_test_task
        full = dict(classes=case['classes'], files={}, context=None,
                    base={'name': 'real', 'data': dict(tasks=['@M.*'], **case['vals'])})
        tmp = tempfile.mkdtemp(prefix='tcverif-test-')
        try:
            with pl.workspace(full) as (d, mod):
                import sys
                m = sys.modules[mod]
                cls_of = {c['id']: getattr(m, c['cname']) for c in case['classes']}
                slug = {c['id']: pl.slug_of(c) for c in case['classes']}
                # the real chain, for the values handed to the mocks and for the comparison
                real_values, real_error, out_real_raw = {}, None, {}
                try:
                    chain = pl.build_config(full, mod).chain()
                    for n, t in chain.tasks.items():
                        out_real_raw[n] = t.value
                        real_values[n] = deep_strip(out_real_raw[n])
                except CONSTRUCTION_ERRORS as e:
                    real_error = type(e).__name__
                mocks = []
                mock_ids = [c['id'] for c in case['classes'] if c['id'] not in case['real'] and not c.get('abstract')]
                for cid in mock_ids:
                    v = real_values.get(slug[cid], {'mock': cid})
                    mocks.append([cid, slug[cid], v])
                if case['drop_mock'] and mocks:
                    mocks = mocks[1:]
                for cid in case.get('also_mock', []):      # a class that is listed among the tested tasks AND mocked: the mock wins
                    mocks.append([cid, slug[cid], real_values.get(slug[cid], {'mock': cid})])
                pl.RUNLOG.clear()
                out = {}

                def helper(mock_list, base_dir):
                    params = {k: materialize(v) for k, v in case['vals'].items()}
                    mock_arg = {(cls_of[cid] if case['by_class'] else name): v for cid, name, v in mock_list}
                    try:
                        if case['single'] and len(case['real']) == 1:
                            t = create_test_task(cls_of[case['real'][0]], input_tasks=mock_arg, parameters=params,
                                                 base_dir=base_dir)
                            tasks = {t.fullname: t}
                        else:
                            tc = TestChain([cls_of[i] for i in case['real']], mock_tasks=mock_arg, parameters=params,
                                           base_dir=base_dir)
                            tasks = {n: t for n, t in tc.tasks.items() if type(t).__name__ != 'MockTask'}
                        values = []
                        for n, t in tasks.items():
                            if base_dir is None:
                                made.append(t.get_config().base_dir)
                            try:
                                values.append([n, ['ok', t.value]])
                            except Exception as e:
                                values.append([n, ['error', type(e).__name__]])
                        # forcing / resetting what was mocked and recomputing the real tasks: the mocks keep their values
                        mocks_live = {id(m): m for t in tasks.values() for m in t.input_tasks.values()
                                      if type(m).__name__ == 'MockTask'}
                        after = []
                        for k, m in enumerate(mocks_live.values()):
                            (m.force if k % 2 == 0 else m.reset_data)()
                        for n, t in tasks.items():
                            try:
                                t.force()
                                after.append([n, ['ok', t.value]])
                            except Exception as e:
                                after.append([n, ['error', f'{type(e).__name__}: {e}'[:100]]])
                        return dict(values=values, after_force=after,
                                    kinds=[[n, type(t).__name__, t.slugname] for n, t in tasks.items()])
                    except CONSTRUCTION_ERRORS as e:
                        return dict(error=type(e).__name__, text=str(e)[:150])
                made = []
                out.update(helper(mocks, Path(tmp)))
                # the helper used again without a base_dir, with the same and then with other upstream values
                alt = [[cid, name, {'alt': v}] for cid, name, v in mocks]
                out['again'] = helper(mocks, None)
                out['again_alt'] = helper(alt, None)
                out['alt_mocks'] = [[name, v] for _, name, v in alt]
                for b in made:      # the directories the helpers made for themselves
                    if b is not None and str(b).startswith(tempfile.gettempdir()) and Path(b) != Path(tmp):
                        shutil.rmtree(b, ignore_errors=True)
                out['raw_values'] = out.get('values')
                for part in (out, out['again'], out['again_alt']):
                    if 'values' in part:
                        part['values'] = [[n, [r[0], deep_strip(r[1])]] for n, r in part['values']]
                out['mocks'] = [[name, v] for _, name, v in mocks]
                out['real_values'] = real_values
                out['real_raw'] = out_real_raw
                out['real_error'] = real_error
                out['ran'] = [s for _, s, _ in pl.RUNLOG]
                out['files'] = sorted(str(p.relative_to(tmp)) for p in Path(tmp).rglob('*') if p.is_file())
                return out
        finally:
            shutil.rmtree(tmp, ignore_errors=True)

    def encode(self, case, obs):
        order = sorted(case['classes'], key=lambda c: c['id'])
        by_id = {c['id']: i for i, c in enumerate(order)}
        classes = clist([pl.cclass(c, by_id) for c in order])
        i = cpair(classes, clist([cnat(by_id[k]) for k in case['real']]),
                  clist([cpair(cstr(n), cspec(v)) for n, v in obs.get('mocks', [])]),
                  clist([cpair(cstr(k), cspec(v)) for k, v in case['vals'].items()]))
        if 'values' not in obs:
            return i, '(VStr (lit "error"))'
        vs = []
        for n, r in obs['values']:
            vs.append(f'(VList [VStr {cstr(n)}; ' + (cspec(r[1]) if r[0] == 'ok' else '(VStr (lit "error"))') + '])')
        return i, '(VList ' + clist(vs) + ')'

    def oracle(self, case, obs):
        if 'unexpected_exception' in obs:
            return f'unexpected exception {obs["unexpected_exception"]}: {obs["text"]}'
        import json
        slugs = {pl.slug_of(c) for c in case['classes']}
        mock_names = {n for n, _ in obs.get('mocks', [])}
        if any(s in mock_names for s in obs.get('ran', [])):
            return f'a mocked task was run: {obs["ran"]}'
        for f in obs.get('files', []):
            d = '/'.join(f.split('/')[:-1]).replace('/', ':')
            if d in mock_names:
                return f'a mocked task was persisted: {f}'
        if case['drop_mock'] and not obs.get('real_error'):
            # a required input (declared by class) of a tested task that is neither tested nor mocked must be reported when
            # the helper is constructed
            mock_ids = [c['id'] for c in case['classes'] if c['id'] not in case['real'] and not c.get('abstract')]
            if mock_ids:
                dropped = mock_ids[0]
                needed = any(r.get('cls') == dropped for c in case['classes'] if c['id'] in case['real'] for r in c['meta_inputs'])
                if needed and 'error' not in obs:
                    return (f'the input {pl.slug_of(next(c for c in case["classes"] if c["id"] == dropped))} of a tested task is '
                            f'neither tested nor mocked, yet the helper was constructed (values: {str(obs.get("values"))[:200]})')
        if obs.get('real_error') or 'values' not in obs or case['drop_mock']:
            return None
        asked = sorted(pl.slug_of(c) for c in case['classes'] if c['id'] in case['real'] and c['id'] not in case.get('also_mock', []))
        for tag, part in (('', obs), (' (used again)', obs.get('again', {}))):
            if 'kinds' in part:
                got = sorted(sl for _, kind, sl in part['kinds'] if kind != 'MockTask')
                mocked = [n for n, kind, _ in part['kinds'] if kind == 'MockTask']
                if mocked or got != asked:
                    return (f'the helper{tag} was asked for the tasks {asked}; it yields {got}'
                            + (f' and hands out the mock(s) {mocked} as tested task' if mocked else ''))
        for n, r in obs.get('raw_values') or []:
            real = obs.get('real_raw', {}).get(n)
            if r[0] == 'ok' and isinstance(r[1], dict) and isinstance(real, dict) and r[1].get('h') != real.get('h'):
                return (f'{n}: parameter objects that take part in the chain (ChainObject) were initialised {r[1].get("h")} in '
                        f'the helper and {real.get("h")} in the real chain')
        first = {n: r for n, r in obs.get('raw_values') or []}
        for n, r in obs.get('after_force', []):
            if n in first and first[n][0] == 'ok' and json.dumps(r, sort_keys=True) != json.dumps(first[n], sort_keys=True):
                return (f'{n}: after forcing/resetting the mocked inputs and recomputing, the helper yields {json.dumps(r)[:200]} '
                        f'instead of {json.dumps(first[n])[:200]} (a mock returns the supplied value, whatever is done to it)')
        # every use of the helper sees the upstream values handed to THAT use
        for tag, mocks in (('again', obs['mocks']), ('again_alt', obs.get('alt_mocks', []))):
            part = obs.get(tag, {})
            given = {n: v for n, v in mocks}
            for n, r in part.get('values', []):
                if r[0] != 'ok' or not isinstance(r[1], dict):
                    continue
                real_names = {rn for rn, _ in part.get('values', [])}
                for iname, ival in r[1].get('i', []):
                    if any(rn == iname or rn.split(':')[-1] == iname for rn in real_names):
                        continue     # the input may be a task that is really run in the helper, not a mock
                    cands = [mn for mn in given if mn == iname] or [mn for mn in given if mn.split(':')[-1] == iname]
                    if len(cands) != 1:
                        continue
                    mv = given[cands[0]]
                    if json.dumps(ival, sort_keys=True) != json.dumps(mv, sort_keys=True):
                        return (f'{n} (helper used again without base_dir, {tag}): input {iname} is '
                                f'{json.dumps(ival)[:120]}, the value handed to the helper is {json.dumps(mv)[:120]}')
        for n, r in obs['values']:
            if r[0] != 'ok' or n not in obs['real_values']:
                continue
            if json.dumps(r[1], sort_keys=True) != json.dumps(obs['real_values'][n], sort_keys=True):
                return (f'{n}: the test helper yields {json.dumps(r[1])[:300]}, the real chain with the same parameters '
                        f'and upstream values yields {json.dumps(obs["real_values"][n])[:300]}')
        return None

    def nontrivial(self, case, obs):
        return 'values' in obs and bool(obs.get('mocks')) and len(case['classes']) >= 2

    def key(self, case):
        return repr(case)

    def distribution(self, cases, obs):
        d = dict(single=0, errors=0, with_mocks=0, real_chain_invalid=0)
        for c, o in zip(cases, obs):
            d['single'] += bool(c['single'] and len(c['real']) == 1)
            d['errors'] += 'error' in o
            d['with_mocks'] += bool(o.get('mocks'))
            d['real_chain_invalid'] += bool(o.get('real_error'))
        return d


IDENTITY_SRC = '''
from taskchain import Task, Parameter
from taskchain.parameter import ParameterObject

class Marker(ParameterObject):
    def repr(self):
        return 'Marker()'

DEFAULT_MODE = Marker()

class Audit(ParameterObject):
    def __init__(self):
        self.seen = []
    def repr(self):
        return 'Audit()'
    def note(self, what):
        self.seen.append(what)

class Pick(Task):
    class Meta:
        parameters = [Parameter('mode'), Parameter('audit'), Parameter('items')]
    def run(self, mode, audit, items) -> dict:
        audit.note('ran')
        items.append('touched by run')
        return {'branch': 'default' if mode is DEFAULT_MODE else 'other', 'n': len(items)}
'''


class ParameterIdentity(Suite):
    """parameter values handed over as live objects - a module-level sentinel compared with `is`, a recording object the
    caller looks at afterwards, a list the task appends to: the helper gives the task the objects it was given, as the
    real chain built from the same values does (same value, and the caller's objects have seen the run).
    Runtime check only."""
    name = 'parameter_identity'
    model = ''

    def gen(self, rng, tier):
        return [dict(helper=h, with_dir=w) for h in ('create_test_task', 'TestChain') for w in (False, True)]

    def run_impl(self, case):
        import sys, types
        from taskchain import Config
        from taskchain.utils.testing import TestChain, create_test_task
        tmp = tempfile.mkdtemp(prefix='tcverif-ident-')
        name = 'tcv_identity'
        m = types.ModuleType(name)
        sys.modules[name] = m
        try:
            exec(compile(IDENTITY_SRC, name, 'exec'), m.__dict__)
            m.Pick.__module__ = name
            out = {}
            audit, items = m.Audit(), []
            cfg = Config(Path(tmp) / 'real', name='real', data={'tasks': [m.Pick], 'mode': m.DEFAULT_MODE, 'audit': audit, 'items': items})
            out['real'] = dict(value=cfg.chain()['pick'].value, seen=list(audit.seen), items=list(items))
            audit, items = m.Audit(), []
            params = {'mode': m.DEFAULT_MODE, 'audit': audit, 'items': items}
            kw = {'base_dir': Path(tmp) / 'helper'} if case['with_dir'] else {}
            if case['helper'] == 'create_test_task':
                t = create_test_task(m.Pick, parameters=params, **kw)
            else:
                t = TestChain([m.Pick], parameters=params, **kw)['pick']
            out['helper'] = dict(value=t.value, seen=list(audit.seen), items=list(items))
            return out
        finally:
            sys.modules.pop(name, None)
            shutil.rmtree(tmp, ignore_errors=True)

    def oracle(self, case, obs):
        if 'unexpected_exception' in obs:
            return f'unexpected exception {obs["unexpected_exception"]}: {obs["text"]}'
        import json
        if json.dumps(obs['real'], sort_keys=True) != json.dumps(obs['helper'], sort_keys=True):
            return (f'{case}: with the same parameter objects the real chain gives {obs["real"]}, the helper {obs["helper"]} '
                    f'(value of the task, what the caller\'s recording object has seen, the caller\'s list afterwards)')
        return None

    def nontrivial(self, case, obs):
        return True

    def key(self, case):
        return repr(case)


MOCKKIND_SRC = """
from taskchain import Task
from taskchain.data import InMemoryData

SEEN = {}

class Upstream(Task):
    class Meta:
        data_class = InMemoryData
    def run(self) -> str:
        raise AssertionError('the mocked task was run')

class Consumer(Task):            # looks at its input both ways: as run argument and through self.input_tasks
    class Meta:
        input_tasks = [Upstream]
        data_class = InMemoryData
    def run(self, upstream) -> str:
        SEEN['arg'] = upstream
        SEEN['via_inputs'] = self.input_tasks['upstream'].value
        return 'done'

class Scaler:                    # an object that can be called (a fitted model, a transformer)
    def __init__(self):
        self.calls = 0
    def __call__(self, *a):
        self.calls += 1
        return 'called'
"""


class MockValueKinds(Suite):
    """the value supplied for a mocked input may be anything - a function, a class, a functools.partial, an object with
    __call__, a generator function, None, falsy values, arrays, frames and series (whose == is element-wise), an object
    that equals everything: the tested task receives that very object, as run argument and through self.input_tasks, and
    nothing calls it.  Runtime check only."""
    name = 'mock_value_kinds'
    model = ''
    KINDS = ('function', 'lambda', 'class', 'partial', 'callable_object', 'generator_function', 'builtin', 'none', 'zero',
             'empty_list', 'dict', 'array', 'empty_array', 'frame', 'series', 'mock_any', 'not_implemented')

    def gen(self, rng, tier):
        return [dict(kind=k, helper=h, by=b) for k in self.KINDS for h in ('create_test_task', 'TestChain') for b in ('class', 'name')]

    def run_impl(self, case):
        import functools, sys, types
        from taskchain.utils.testing import TestChain, create_test_task
        name = 'tcv_mockkinds'
        m = types.ModuleType(name)
        sys.modules[name] = m
        try:
            exec(compile(MOCKKIND_SRC, name, 'exec'), m.__dict__)
            for c in (m.Upstream, m.Consumer):
                c.__module__ = name
            calls = []

            def fn(*a):
                calls.append(a)
                return 'fn result'

            def genf():
                calls.append('gen')
                yield 1
            scaler = m.Scaler()
            value = {'function': fn, 'lambda': (lambda: calls.append('lambda') or 'lambda result'), 'class': m.Scaler,
                     'partial': functools.partial(fn, 1), 'callable_object': scaler, 'generator_function': genf, 'builtin': len,
                     'none': None, 'zero': 0, 'empty_list': [], 'dict': {'a': 1},
                     # values whose comparison with == does not give one truth value, or is true for everything
                     'array': __import__('numpy').arange(6).reshape(2, 3), 'empty_array': __import__('numpy').zeros((0, 2)),
                     'frame': __import__('pandas').DataFrame({'a': [1, 2], 'b': [3.5, None]}),
                     'series': __import__('pandas').Series([1, 2, 3]), 'mock_any': __import__('unittest.mock').mock.ANY,
                     'not_implemented': NotImplemented}[case['kind']]
            mocks = {(m.Upstream if case['by'] == 'class' else 'upstream'): value}
            if case['helper'] == 'create_test_task':
                t = create_test_task(m.Consumer, input_tasks=mocks)
            else:
                t = TestChain([m.Consumer], mock_tasks=mocks)['consumer']
            out = t.value
            return dict(out=out, arg_is=m.SEEN.get('arg') is value, via_is=m.SEEN.get('via_inputs') is value,
                        arg=repr(m.SEEN.get('arg'))[:80], calls=len(calls) + scaler.calls)
        finally:
            sys.modules.pop(name, None)

    def oracle(self, case, obs):
        if 'unexpected_exception' in obs:
            return f'unexpected exception {obs["unexpected_exception"]}: {obs["text"]}'
        if not obs['arg_is'] or not obs['via_is'] or obs['calls'] or obs['out'] != 'done':
            return (f'{case}: the tested task received {obs["arg"]} (the supplied object as argument: {obs["arg_is"]}, through '
                    f'input_tasks: {obs["via_is"]}); the supplied value was called {obs["calls"]} time(s)')
        return None

    def nontrivial(self, case, obs):
        return True

    def key(self, case):
        return repr(case)


SEQUENCE_SRC = """
from taskchain import Task
from taskchain.parameter import InputTaskParameter
from taskchain.data import InMemoryData

class LegacyScale(Task):
    class Meta:
        task_group = 'legacy'
        name = 'scale'
        data_class = InMemoryData
    def run(self) -> int:
        return 3

class Consumer(Task):            # an optional input named by a short string
    class Meta:
        parameters = [InputTaskParameter('scale', default=1)]
        data_class = InMemoryData
    def run(self, scale) -> int:
        return 10 * scale

class Strict(Task):              # the same input, required
    class Meta:
        parameters = [InputTaskParameter('scale')]
        data_class = InMemoryData
    def run(self, scale) -> int:
        return 100 * scale
"""


class HelperSequences(Suite):
    """several helpers made one after the other in one process for the same task class, the input mocked under different
    keys - the class of a grouped task, its full name, the short name the task declares, or not at all: each helper
    yields what its own mocks say, whatever the earlier helpers were given.  Runtime check only."""
    name = 'helper_sequences'
    model = ''
    KEYS = ('class', 'full', 'short', 'none')

    def gen(self, rng, tier):
        import itertools
        return [dict(task=t, keys=list(ks), helper=h) for t in ('Consumer', 'Strict') for h in ('create_test_task', 'TestChain')
                for ks in itertools.permutations(self.KEYS, 3) if not (t == 'Strict' and 'none' in ks)][:40] + \
               [dict(task='Consumer', keys=['class', 'short', 'class', 'none', 'full'], helper='TestChain')]

    def run_impl(self, case):
        import sys, types
        from taskchain.utils.testing import TestChain, create_test_task
        name = 'tcv_sequences'
        m = types.ModuleType(name)
        sys.modules[name] = m
        try:
            exec(compile(SEQUENCE_SRC, name, 'exec'), m.__dict__)
            for c in (m.LegacyScale, m.Consumer, m.Strict):
                c.__module__ = name
            cls = getattr(m, case['task'])
            out = []
            for i, k in enumerate(case['keys']):
                value = 5 + i
                mocks = {'class': {m.LegacyScale: value}, 'full': {'legacy:scale': value}, 'short': {'scale': value}, 'none': {}}[k]
                try:
                    if case['helper'] == 'create_test_task':
                        t = create_test_task(cls, input_tasks=mocks)
                    else:
                        t = TestChain([cls], mock_tasks=mocks)[case['task'].lower()]
                    out.append(['value', t.value])
                except Exception as e:
                    out.append(['error', f'{type(e).__name__}: {e}'[:120]])
            return dict(results=out)
        finally:
            sys.modules.pop(name, None)

    def oracle(self, case, obs):
        if 'unexpected_exception' in obs:
            return f'unexpected exception {obs["unexpected_exception"]}: {obs["text"]}'
        factor = 10 if case['task'] == 'Consumer' else 100
        for i, (k, r) in enumerate(zip(case['keys'], obs['results'])):
            want = factor * (1 if k == 'none' else 5 + i)
            if r != ['value', want]:
                return (f'{case}: helper {i} (input mocked by {k}, value {5 + i}) yields {r}; with its own mocks the task computes {want} '
                        f'(earlier helpers: {case["keys"][:i]})')
        return None

    def nontrivial(self, case, obs):
        return True

    def key(self, case):
        return repr(case)


SHARED_SRC = """
import random
from taskchain import Task, Parameter
from taskchain.chain import ChainObject
from taskchain.parameter import AutoParameterObject

class Sampler(AutoParameterObject):       # the object carries state: a seeded generator
    def __init__(self, seed):
        self.seed = seed
        self._random = random.Random(seed)
    def pick(self, items, count):
        return self._random.sample(items, count)

class Counter(AutoParameterObject):       # the object counts its uses
    def __init__(self, start=0):
        self.start = start
        self._n = start
    def pick(self, items, count):
        self._n += 1
        return [self._n] + items[:count]

class Probe(ChainObject, AutoParameterObject):     # told about the chain, it looks at it right away
    def __init__(self, k=1):
        self.k = k
        self._first = 'not initialised'
    def init_chain(self, chain):
        self._first = chain['pool'].value[0] if 'pool' in chain else 'no pool in the chain'
    def pick(self, items, count):
        return [self._first] + items[:count]

class Pool(Task):
    def run(self) -> list:
        return list(range(50))

class Sample(Task):
    class Meta:
        input_tasks = [Pool]
        parameters = [Parameter('sampler'), Parameter('count', default=4)]
    def run(self, pool, sampler, count) -> list:
        return sampler.pick(pool, count)
"""


class SharedParameters(Suite):
    """one dict of parameters - a fixture - holding the *definition* of a parameter object that carries state (a seeded
    sampler, a counter) is handed to several helpers one after the other: each helper yields what a real chain built from
    that dict yields (a fresh object each time), and the caller's dict still holds the definition afterwards.
    Runtime check only."""
    name = 'shared_parameter_definitions'
    model = ''

    def gen(self, rng, tier):
        import itertools
        return [dict(obj=o, helpers=list(hs), count=c) for o in ('Sampler', 'Counter') for c in (None, 3)
                for hs in (('create_test_task', 'create_test_task'), ('TestChain', 'TestChain', 'create_test_task'),
                           ('create_test_task', 'TestChain'), ('TestChain',) * 3)] + \
               [dict(obj='Probe', helpers=list(hs), count=2) for hs in (('create_test_task',), ('TestChain', 'create_test_task'), ('create_test_task',) * 3)]

    def run_impl(self, case):
        import copy, sys, types
        from taskchain import Config
        from taskchain.utils.testing import TestChain, create_test_task
        tmp = tempfile.mkdtemp(prefix='tcverif-shared-')
        name = 'tcv_shared'
        m = types.ModuleType(name)
        sys.modules[name] = m
        try:
            exec(compile(SHARED_SRC, name, 'exec'), m.__dict__)
            for c in (m.Pool, m.Sample, m.Sampler, m.Counter):
                c.__module__ = name
            if case['obj'] == 'Probe':
                # one live object that takes part in the chain, handed to helpers whose mocked input differs
                probe = m.Probe()
                got, want = [], []
                real = Config(Path(tmp) / 'real', name='real', data={'tasks': [m.Pool, m.Sample], 'sampler': m.Probe(), 'count': 2}).chain()
                for i, h in enumerate(case['helpers']):
                    pool = list(range(10 * i, 10 * i + 5))
                    params = {'sampler': probe, 'count': case['count']}
                    if h == 'create_test_task':
                        t = create_test_task(m.Sample, input_tasks={m.Pool: pool}, parameters=params)
                    else:
                        t = TestChain([m.Sample], mock_tasks={'pool': pool}, parameters=params)['sample']
                    got.append(t.value)
                    want.append([pool[0]] + pool[:case['count']])
                return dict(reals=[real['sample'].value, [0, 0, 1]], got=got, want=want, same_dict=True, now='')
            definition = {'class': f'{name}.{case["obj"]}', 'kwargs': {'seed': 42} if case['obj'] == 'Sampler' else {'start': 7}}
            params = {'sampler': definition}
            if case['count'] is not None:
                params['count'] = case['count']
            before = copy.deepcopy(params)
            reals = []
            for i in range(2):
                ch = Config(Path(tmp) / f'real{i}', name='real', data={'tasks': [m.Pool, m.Sample], **params}).chain()
                reals.append(ch['sample'].value)
            pool = list(range(50))
            got = []
            for h in case['helpers']:
                if h == 'create_test_task':
                    t = create_test_task(m.Sample, input_tasks={m.Pool: pool}, parameters=params)
                else:
                    t = TestChain([m.Sample], mock_tasks={'pool': pool}, parameters=params)['sample']
                got.append(t.value)
            return dict(reals=reals, got=got, same_dict=(params == before and params['sampler'] is definition
                                                         and type(params['sampler']) is dict), now=repr(params)[:200])
        finally:
            sys.modules.pop(name, None)
            shutil.rmtree(tmp, ignore_errors=True)

    def oracle(self, case, obs):
        if 'unexpected_exception' in obs:
            return f'unexpected exception {obs["unexpected_exception"]}: {obs["text"]}'
        if obs['reals'][0] != obs['reals'][1]:
            return None       # the real chain is not repeatable here: nothing to compare with
        for i, (h, v) in enumerate(zip(case['helpers'], obs['got'])):
            if 'want' in obs:
                if v != obs['want'][i]:
                    return (f'{case}: helper {i} ({h}) yields {v}; with the input it was given, an object that reads the chain when it is '
                            f'told about it makes the task yield {obs["want"][i]} (the real chain: {obs["reals"][0]})')
                continue
            if v != obs['reals'][0]:
                return (f'{case}: use {i} of the shared parameters ({h}) yields {v}; a real chain built from the same dict '
                        f'yields {obs["reals"][0]} every time (earlier helpers: {case["helpers"][:i]})')
        if not obs['same_dict']:
            return f'{case}: the caller\'s parameters were rewritten by the helpers, now {obs["now"]}'
        return None

    def nontrivial(self, case, obs):
        return obs['reals'][0] == obs['reals'][1]

    def key(self, case):
        return repr(case)


LIFETIME_SRC = """
from taskchain import Task, DirData

class Files(Task):               # a value that lives on disk: the directory the task filled
    def run(self) -> DirData:
        d = self.get_data_object()
        for n in ('alpha', 'beta', 'gamma'):
            (d.dir / n).write_text(n)
        return d

class Count(Task):
    class Meta:
        input_tasks = [Files]
    def run(self, files) -> list:
        return sorted(p.name for p in files.iterdir())
"""


class HelperLifetime(Suite):
    """a helper made without base_dir whose upstream result lives on disk (a directory): the tasks taken from the helper
    stay usable after the helper object itself has gone out of scope - a fixture that returns only the task, a garbage
    collection in between - as the tasks of a real chain do.  Runtime check only."""
    name = 'helper_lifetime'
    model = ''

    def gen(self, rng, tier):
        return [dict(helper=h, first=f, collect=c) for h in ('TestChain', 'create_test_task') for f in ('files', 'none') for c in (True, False)]

    def run_impl(self, case):
        import gc, sys, types
        from taskchain.utils.testing import TestChain, create_test_task
        name = 'tcv_lifetime'
        m = types.ModuleType(name)
        sys.modules[name] = m
        try:
            exec(compile(LIFETIME_SRC, name, 'exec'), m.__dict__)
            for c in (m.Files, m.Count):
                c.__module__ = name

            def fixture():
                if case['helper'] == 'TestChain':
                    chain = TestChain([m.Files, m.Count])
                    if case['first'] == 'files':
                        _ = chain['files'].value
                    return chain['count']
                t = create_test_task(m.Count, input_tasks={m.Files: None}) if False else None
                chain = TestChain([m.Files, m.Count])
                return chain['count']
            task = fixture()
            if case['collect']:
                gc.collect()
            return dict(value=task.value)
        finally:
            sys.modules.pop(name, None)

    def oracle(self, case, obs):
        if 'unexpected_exception' in obs:
            return f'unexpected exception {obs["unexpected_exception"]}: {obs["text"]}'
        if obs['value'] != ['alpha', 'beta', 'gamma']:
            return f'{case}: the task taken from the helper yields {obs["value"]}; the real chain yields ["alpha", "beta", "gamma"]'
        return None

    def nontrivial(self, case, obs):
        return True

    def key(self, case):
        return repr(case)


class C19(Prop):
    pid = 'C19'
    suites = [Helpers(), ParameterIdentity(), MockValueKinds(), HelperSequences(), SharedParameters(), HelperLifetime()]
    assumptions = ['a fresh base_dir per helper (the helpers persist under the config name `test`)']


PROP = C19()
