"""Histories over one data directory (C01, C04, C07, C13, C18 share this harness)."""
import copy

from .core import Suite
from .coqlit import cbool, clist, cnat, cpair, cstr
from . import pipeline as pl
from .suites_chain import cobs
from .values import cspec


def drop_run_ordinals(v):
    if isinstance(v, list):
        return [drop_run_ordinals(x) for x in v]
    if isinstance(v, dict):
        return {k: drop_run_ordinals(x) for k, x in v.items() if k != 'run'}
    return v


def cout(o):
    out = o['out']
    if out == 'error':
        return '(VStr (lit "error"))'
    if isinstance(out, dict):
        return '(VStr (lit "unexpected"))'
    body = out[1]
    if body is None:
        v = 'VNone'
    elif 'chain' in body:
        v = cobs(body['chain'])
    elif 'chains' in body:
        v = '(VList ' + clist([cobs(c) for c in body['chains']]) + ')'
    elif 'value' in body:
        v = cspec(body['value'])
    elif 'bool' in body:
        v = f'(VBool {cbool(body["bool"])})'
    elif 'records' in body:
        ri, lg = body['records']
        # the ordinal of the run is compared by the oracle only: within one Chain.force(recompute=True) the order of
        # recomputation (a set iteration) is arbitrary, so model and implementation may number those runs differently
        ri = drop_run_ordinals(ri)
        v = ('(VList [' + (cspec(ri) if ri is not None else 'VNone') + '; ' +
             ('VNone' if lg is None else '(VList ' + clist([f'(VStr {cstr(l)})' for l in lg]) + ')') + '])')
    elif 'flags' in body:
        v = '(VList ' + clist([f'(VList [VStr {cstr(n)}; VBool {cbool(f)}; VBool {cbool(h)}])' for n, f, h in body['flags']]) + ')'
    else:
        v = 'VNone'
    return f'(VList [VStr (lit "ok"); {v}])'


def cop(op):
    k = op['op']
    if k == 'build':
        return f'(OBuild {pl.cbase(op["base"], "M")})'
    if k == 'multi':
        return '(OBuildMulti ' + clist([pl.cbase(b, 'M') for b in op['bases']]) + ')'
    if k == 'value':
        return f'(OValue {cnat(op["chain"])} {cstr(op["name"])})'
    if k == 'force_task':
        return f'(OForceTask {cnat(op["chain"])} {cstr(op["name"])} {cbool(op["delete"])})'
    if k == 'force_chain':
        return (f'(OForceChain {cnat(op["chain"])} ' + clist([cstr(n) for n in op['names']]) +
                f' {cbool(op["recompute"])} {cbool(op["delete"])})')
    if k == 'force_multi':
        return ('(OForceMulti ' + clist([cnat(c) for c in op['chains']]) + ' ' + clist([cstr(n) for n in op['names']]) +
                f' {cbool(op["recompute"])} {cbool(op["delete"])})')
    if k == 'reset':
        return f'(OReset {cnat(op["chain"])} {cstr(op["name"])})'
    if k == 'has_data':
        return f'(OHasData {cnat(op["chain"])} {cstr(op["name"])})'
    if k == 'flags':
        return f'(OFlags {cnat(op["chain"])})'
    if k == 'records':
        return f'(OInfo {cnat(op["chain"])} {cstr(op["name"])})'
    if k == 'restart':
        return 'ORestart'
    if k == 'fail':
        return '(OSetFail ' + clist([cstr(s) for s in op['slugs']]) + ')'
    raise ValueError(k)


def alt_base(rng, case):
    """A second configuration of the same pipeline: the base document with one value changed (or none)."""
    base = case['base']
    if 'file' in base:
        f = base['file'].split('#')[0]
        doc = case['files'][f]
        if 'configs' in doc:
            return None
        body = copy.deepcopy(doc)
    else:
        body = copy.deepcopy(base['data'])
    keys = [k for k in body if k not in ('tasks', 'uses', 'excluded_tasks', 'main_part')]
    if keys and rng.random() < 0.8:
        k = rng.choice(keys)
        v = body[k]
        body[k] = (v + 1) if isinstance(v, int) and not isinstance(v, bool) else rng.choice([0, 1, 'alt', 2.5])
    return {'name': 'alt', 'data': body}


def gen_history(rng, case, max_ops=14, mix='all'):
    bases = [case['base']]
    ab = alt_base(rng, case)
    if ab is not None:
        bases.append(ab)
        if mix == 'multi':
            ab2 = alt_base(rng, case)
            ab2['name'] = 'alt2'
            bases.append(ab2)
    slugs = [pl.slug_of(c) for c in case['classes']]
    ops, nchains, failing = [], 0, False

    def build():
        nonlocal nchains
        if len(bases) > 1 and rng.random() < (0.8 if mix == 'multi' else 0.15):
            bs = list(bases) if rng.random() < 0.6 else [bases[0], bases[1]]
            ops.append({'op': 'multi', 'bases': bs})
            nchains += len(bs)
        else:
            ops.append({'op': 'build', 'base': rng.choice(bases)})
            nchains += 1
    build()
    for _ in range(rng.randrange(3, max_ops)):
        r = rng.random()
        if nchains == 0 or r < 0.08:
            build()
        elif mix == 'multi' and r < 0.22:
            ops.append({'op': 'force_multi', 'multi': rng.randrange(4), 'picks': [rng.randrange(64) for _ in range(rng.choice([1, 2]))],
                        'recompute': (not failing) and rng.random() < 0.4, 'delete': rng.random() < 0.4})
        elif mix == 'records' and r < 0.3:
            ops.append({'op': 'records', 'chain': rng.randrange(nchains), 'pick': rng.randrange(64)})
        elif r < 0.6 or (mix == 'plain' and r < 0.8):
            ops.append({'op': 'value', 'chain': rng.randrange(nchains), 'pick': rng.randrange(64)})
        elif mix != 'plain' and r < 0.62:
            ops.append({'op': 'reset', 'chain': rng.randrange(nchains), 'pick': rng.randrange(64)})
        elif r < 0.64 or (mix == 'plain' and r < 0.86):
            ops.append({'op': 'has_data', 'chain': rng.randrange(nchains), 'pick': rng.randrange(64)})
        elif r < 0.68 or (mix == 'plain' and r < 0.9):
            ops.append({'op': 'flags', 'chain': rng.randrange(nchains)})
        elif mix == 'plain':
            ops.append({'op': 'restart'})
            nchains = 0
        elif r < 0.76 or (mix == 'force' and r < 0.82):
            ops.append({'op': 'force_task', 'chain': rng.randrange(nchains), 'pick': rng.randrange(64),
                        'delete': rng.random() < 0.4})
            if rng.random() < 0.3:      # the value held in memory is dropped between forcing and the next request
                ops.append({'op': 'reset', 'chain': ops[-1]['chain'], 'pick': ops[-1]['pick']})
        elif r < 0.84 or (mix == 'force' and r < 0.95):
            ops.append({'op': 'force_chain', 'chain': rng.randrange(nchains),
                        'picks': [rng.randrange(64) for _ in range(rng.choice([1, 1, 2, 2, 3]))],
                        'recompute': (not failing) and rng.random() < 0.4, 'delete': rng.random() < 0.4})
        elif r < 0.9:
            failing = rng.random() < 0.6
            ops.append({'op': 'fail', 'slugs': [rng.choice(slugs)] if failing else []})
        else:
            ops.append({'op': 'restart'})
            nchains = 0
    return ops


def reference_chains(case, steps):
    """For every chain index of every process: the reference chain (or None when the reference declines)."""
    from .gen_pipeline import ref_chain, Unsure
    out, cur = [], []
    for s in steps:
        op = s['op']
        if op['op'] == 'restart':
            cur = []
        bases = [op['base']] if op['op'] == 'build' else op.get('bases', []) if op['op'] == 'multi' else []
        for b in bases:
            try:
                r = ref_chain(dict(case, base=b))
                cur.append(None if isinstance(r, tuple) else r)
            except Unsure:
                cur.append(None)
            except (KeyError, IndexError, ValueError, AttributeError, TypeError):
                cur.append(None)
        out.append(list(cur))
    return out


def history_oracle(case, obs, checks):
    import json
    from .gen_pipeline import ref_value, ref_keys
    steps = obs.get('steps', [])
    for s in steps:
        if isinstance(s['out'], dict):
            return f'unexpected exception in {s["op"]}: {s["out"]}'
    if 'force' in checks:
        m = force_oracle(case, steps)
        if m:
            return m
    refs = reference_chains(case, steps)
    stored_before = set()
    ever_forced_or_failed = False
    seen_runs = set()
    mem_runs, epoch = set(), 0
    for k, s in enumerate(steps):
        op = s['op']
        kind = op['op']
        if kind in ('force_task', 'force_chain', 'force_multi', 'fail', 'reset'):
            ever_forced_or_failed = True
        if 'values' in checks and kind == 'value' and s['out'] != 'error':
            chains = refs[k]
            ref = chains[op['chain']] if op['chain'] < len(chains) else None
            if ref is not None and op['name'] in ref:
                want = ref_value(ref, op['name'])
                got = s['out'][1]['value']
                if json.dumps(got, sort_keys=True) != json.dumps(want, sort_keys=True):
                    return (f'step {k}: value of {op["name"]} is {json.dumps(got)[:300]}, the reference evaluation of the '
                            f'current configuration gives {json.dumps(want)[:300]}')
        if 'runs' in checks:
            if kind in ('build', 'multi', 'has_data', 'restart', 'fail', 'force_task', 'reset') and s['runs']:
                return f'step {k}: {kind} ran {s["runs"]}'
            if kind == 'force_chain' and not op.get('recompute') and s['runs']:
                return f'step {k}: force without recompute ran {s["runs"]}'
            if kind == 'restart':
                epoch += 1
            if not ever_forced_or_failed:
                for r in s['runs']:
                    slug = r.split('#')[0]
                    data = next((c['data'] for c in case['classes'] if pl.slug_of(c) == slug), 'json')
                    if data != 'memory' and r in seen_runs:
                        return f'step {k}: {r} ran a second time although nothing was forced, failed or deleted'
                    seen_runs.add(r)
                    # a task that keeps its value in memory only: once per chain object (a new chain or process computes it anew)
                    if data == 'memory' and 'chain' in op:
                        mk = (epoch, op['chain'], r)
                        if mk in mem_runs:
                            return (f'step {k}: {r} keeps its value in memory and ran a second time through the same chain, although '
                                    f'nothing was forced, reset or failed')
                        mem_runs.add(mk)
            if kind == 'value' and s['out'] != 'error' and not ever_forced_or_failed and k > 0:
                t = chain_obs(steps, k, op['chain'], op['name'])
                if t is not None:
                    data = next((c['data'] for c in case['classes'] if pl.slug_of(c) == t['slug']), 'json')
                    path = '/'.join(t['slug'].split(':')) + f'/{t["key"]}.json'
                    if data == 'json' and path in steps[k - 1]['files'] and s['runs']:
                        return (f'step {k}: the result of {op["name"]} was stored ({path}) and nothing was forced, '
                                f'but the request ran {s["runs"]}')
            if kind == 'value' and s['out'] != 'error' and not ever_forced_or_failed:
                chains = refs[k]
                ref = chains[op['chain']] if op['chain'] < len(chains) else None
                if ref is not None and op['name'] in ref:
                    keys = ref_keys(ref)
                    up = upstream(ref, op['name'])
                    allowed = {f'{ref[n]["slug"]}#{keys[n]}' for n in up}
                    extra = [r for r in s['runs'] if r not in allowed]
                    if extra:
                        return f'step {k}: request for {op["name"]} ran {extra}, which are not upstream of it'
    return None


def force_oracle(case, steps):
    """Forcing marks exactly the named tasks and everything downstream; each forced task runs again
    exactly once; delete_data removes exactly their results (all recomputed from observed edges)."""
    chains = []          # per chain: dict(tasks={name: obs}, down={canon: set(canon)}, group)
    forced = {}          # (group, slug#key) -> True while marked; 'unknown' after a request that failed part-way
    pending = set()      # forced and not yet re-run
    group = 0

    def consume(groups, runs, ok):
        # a successful run consumes the mark of the object that ran; after a failed request it is not known which of
        # the runs succeeded
        for r in set(runs):
            for g in groups:
                if (g, r) in forced:
                    if ok:
                        del forced[(g, r)]
                    else:
                        forced[(g, r)] = 'unknown'
    failing_now = set()
    for k, s in enumerate(steps):
        op = s['op']
        kind = op['op']
        if kind == 'restart':
            chains, forced, pending = [], {}, set()
            continue
        if kind in ('build', 'multi'):
            group += 1
            body = s['out'][1] if s['out'] != 'error' else None
            obs_list = ([body['chain']] if kind == 'build' else body['chains']) if body else [None] * (1 if kind == 'build' else len(op['bases']))
            for o in obs_list:
                if o is None:
                    chains.append(None)
                    continue
                down = {}
                for u, v in o['edges']:
                    down.setdefault(u, set()).add(v)
                chains.append(dict(tasks=o['tasks'], down=down, group=group))
            continue
        if kind == 'force_multi':
            all_ids, all_members = set(), []
            for ci in op.get('chains', []):
                ch = chains[ci] if ci < len(chains) else None
                if ch is None or any(n not in ch['tasks'] for n in op['names']):
                    break
                todo = [ch['tasks'][n]['canon'] for n in op['names']]
                seen = set()
                while todo:
                    c = todo.pop()
                    if c not in seen:
                        seen.add(c)
                        todo += list(ch['down'].get(c, ()))
                for c in seen:
                    t = ch['tasks'][c]
                    all_ids.add((ch['group'], f"{t['slug']}#{t['key']}"))
                    all_members.append(t)
            else:
                # every chain of the MultiChain was resolved: forcing applies to every one of them
                if op['recompute'] and s['out'] != 'error':
                    # MultiChain.force is Chain.force on every chain: a task shared by n chains is recomputed once per
                    # chain that holds it (C13 asks that forcing applies to every chain, C07 speaks of one chain)
                    want = sorted(i[1] for i in all_ids)
                    n_chains = len(op.get('chains', []))
                    if any(not 1 <= s['runs'].count(w) <= n_chains for w in want):
                        return (f'step {k}: MultiChain.force({op["names"]}, recompute=True) ran {sorted(s["runs"])}; the named '
                                f'tasks and everything downstream in every chain are {want}: each must be recomputed')
                if op['delete'] and not op['recompute'] and s['out'] != 'error':
                    for t in all_members:
                        data = next((x['data'] for x in case['classes'] if pl.slug_of(x) == t['slug']), 'json')
                        path = '/'.join(t['slug'].split(':')) + f'/{t["key"]}.json'
                        if data == 'json' and path in s['files']:
                            return f'step {k}: MultiChain.force(..., delete_data=True) left {path} in place'
            for i in all_ids:
                forced[i] = True
            if op['recompute']:
                consume({g for g, _ in all_ids}, s['runs'], s['out'] != 'error')
                if s['out'] == 'error':
                    for i in all_ids:
                        forced[i] = 'unknown'
            if op['recompute'] and s['out'] != 'error':
                pending -= all_ids
                groups = {g for g, _ in all_ids}
                for r in set(s['runs']):
                    for g in groups:
                        pending.discard((g, r))
            else:
                pending |= all_ids
            continue
        if kind == 'fail':
            failing_now = set(op['slugs'])
        if kind == 'fail' or 'chain' not in op:
            continue
        ch = chains[op['chain']] if op['chain'] < len(chains) else None
        if ch is None or s['out'] == 'error' and kind != 'value':
            continue
        if op.get('name') == '?' or (kind == 'value' and op.get('name') not in ch['tasks']):
            continue

        def ident(name):
            t = ch['tasks'][name]
            return (ch['group'], f"{t['slug']}#{t['key']}")

        def closure(names):
            todo = [ch['tasks'][n]['canon'] for n in names]
            seen = set()
            while todo:
                c = todo.pop()
                if c in seen:
                    continue
                seen.add(c)
                todo += list(ch['down'].get(c, ()))
            return seen
        if kind == 'force_task':
            forced[ident(op['name'])] = True
            pending.add(ident(op['name']))
        elif kind == 'force_chain':
            members = closure(op['names'])
            ids = {ident(c) for c in members}
            for i in ids:
                forced[i] = True
            if op['recompute']:
                consume({ch['group']}, s['runs'], s['out'] != 'error')
                if s['out'] == 'error':
                    for i in ids:
                        forced[i] = 'unknown'
            if op['recompute']:
                want = sorted(i[1] for i in ids)
                if any(s['runs'].count(w) != 1 for w in want) or len(set(s['runs'])) != len(s['runs']):
                    return (f'step {k}: force({op["names"]}, recompute=True) ran {sorted(s["runs"])}, the named tasks and '
                            f'everything downstream are {want}: each must run exactly once (missing upstream may run too)')
                pending -= ids
                # a pending forced task outside the closure that the recomputation needed has had its next request
                for r in set(s['runs']):
                    pending.discard((ch['group'], r))
            else:
                pending |= ids
            if op['delete']:
                for c in members:
                    t = ch['tasks'][c]
                    data = next((x['data'] for x in case['classes'] if pl.slug_of(x) == t['slug']), 'json')
                    path = '/'.join(t['slug'].split(':')) + f'/{t["key"]}.json'
                    if data == 'json' and not op['recompute'] and path in s['files']:
                        return f'step {k}: delete_data left {path} in place'
        elif kind == 'flags' and s['out'] != 'error':
            for n, f, h in s['out'][1]['flags']:
                if forced.get(ident(n)) == 'unknown':
                    continue
                want = ident(n) in forced
                if f != want:
                    return f'step {k}: is_forced of {n} is {f}, expected {want} (forced so far: {sorted(i[1] for i in forced if i[0] == ch["group"])})'
        elif kind == 'value':
            me = ident(op['name'])
            ran = [r for r in s['runs']]
            # unforced tasks keep being served from storage: whatever ran was marked, or had no stored result
            for r in sorted(set(ran)):
                slug, key = r.split('#')
                data = next((x['data'] for x in case['classes'] if pl.slug_of(x) == slug), 'json')
                path = '/'.join(slug.split(':')) + f'/{key}.json'
                if data == 'json' and k > 0 and path in steps[k - 1]['files'] and (ch['group'], r) not in forced:
                    return (f'step {k}: the request for {op["name"]} ran {r}, which is not marked as forced and whose result was '
                            f'stored ({path}); marked: {sorted(i[1] for i in forced if i[0] == ch["group"])}')
            consume({ch['group']}, ran, s['out'] != 'error')
            # a forced task whose request fails before its own run starts - an input named in the signature of its run is
            # made to fail - has not run and stays forced (C07_forced_runs_again: "... unless one of those fails")
            input_failed = s['out'] == 'error' and ran.count(me[1]) == 0 and any(r.split('#')[0] in failing_now for r in ran)
            if me in pending and not input_failed:
                if ran.count(me[1]) != 1:
                    return f'step {k}: forced task {op["name"]} ran {ran.count(me[1])} times on its next request (runs: {ran})'
            if s['out'] != 'error':
                for r in set(ran):
                    pending.discard((ch['group'], r))
            for r in set(ran):
                if ran.count(r) > 1:
                    return f'step {k}: {r} ran {ran.count(r)} times within one request'
    return None


def chain_obs(steps, k, chain, name):
    """The observation (slug, key, ...) of task `name` of chain number `chain` of the process step k belongs to."""
    cur = []
    for s in steps[:k]:
        op = s['op']
        if op['op'] == 'restart':
            cur = []
        elif op['op'] == 'build':
            cur.append(s['out'][1]['chain'] if s['out'] != 'error' else None)
        elif op['op'] == 'multi':
            cur += (s['out'][1]['chains'] if s['out'] != 'error' else [None] * len(op['bases']))
    if chain < len(cur) and cur[chain] is not None:
        return cur[chain]['tasks'].get(name)
    return None


def upstream(ref, name):
    out, todo = set(), [name]
    while todo:
        n = todo.pop()
        if n in out:
            continue
        out.add(n)
        todo += [v['task'] for v in ref[n]['inputs'].values() if 'task' in v]
    return out


class Histories(Suite):
    name = 'histories'
    imports = 'Value Dict Repr Param Config Key Chain World Eval History'
    shard = 6
    in_type = '(World.world * list op)'
    out_type = 'list value'
    prelude = '''
Fixpoint vl_eqb (a b : list value) : bool :=
  match a, b with [], [] => true | x :: a', y :: b' => value_eqb x y && vl_eqb a' b' | _, _ => false end.
Fixpoint drop_run (v : value) : value :=
  match v with
  | VList l => VList (map drop_run l)
  | VDict kvs => VDict (filter (fun kv => negb (str_eqb (fst kv) (lit "run")))
                               (map (fun kv => (fst kv, drop_run (snd kv))) kvs))
  | _ => v
  end.
Definition hist_model (c : World.world * list op) : list value :=
  let '(wd, ops) := c in
  map drop_run (run_history sha_key wd (provenance_run (classes_of_world wd)) init ops).
'''
    eqb = 'vl_eqb'
    model = 'hist_model'
    quick_n, thorough_n = 60, 800
    mix = 'all'

    def corpus(self):
        from .suites_chain import ChainBuild
        cs = ChainBuild().corpus()
        out = []
        c = dict(cs[0])
        c['ops'] = [{'op': 'build', 'base': c['base']}, {'op': 'value', 'chain': 0, 'pick': 2},
                    {'op': 'value', 'chain': 0, 'pick': 2}, {'op': 'restart'}, {'op': 'build', 'base': c['base']},
                    {'op': 'has_data', 'chain': 0, 'pick': 0}, {'op': 'value', 'chain': 0, 'pick': 2},
                    {'op': 'force_chain', 'chain': 0, 'picks': [1], 'recompute': True, 'delete': True},
                    {'op': 'fail', 'slugs': ['abc']}, {'op': 'force_task', 'chain': 0, 'pick': 1, 'delete': False},
                    {'op': 'value', 'chain': 0, 'pick': 2}, {'op': 'fail', 'slugs': []},
                    {'op': 'value', 'chain': 0, 'pick': 2}]
        out.append(c)
        c = dict(cs[1])
        c['ops'] = [{'op': 'build', 'base': c['base']}, {'op': 'value', 'chain': 0, 'pick': 1},
                    {'op': 'value', 'chain': 0, 'pick': 3}]
        out.append(c)
        # a stored result downstream of an in-memory task, requested again by a new process
        from .suites_chain import K, P
        base = {'name': 'm', 'data': {'tasks': ['@M.*']}}
        out.append(dict(classes=[K(0, 'Up', data='memory'), K(1, 'Mid', meta_inputs=[{'cls': 0}]),
                                 K(2, 'Down', meta_inputs=[{'cls': 1}])],
                        files={}, base=base, context=None,
                        ops=[{'op': 'build', 'base': base}, {'op': 'value', 'chain': 0, 'pick': 2}, {'op': 'restart'},
                             {'op': 'build', 'base': base}, {'op': 'value', 'chain': 0, 'pick': 2},
                             {'op': 'flags', 'chain': 0}, {'op': 'value', 'chain': 0, 'pick': 1},
                             {'op': 'build', 'base': base}, {'op': 'value', 'chain': 1, 'pick': 2}]))
        # one task class under two namespaces with different downstream: forcing one, then the other
        two = [dict(K(0, 'Dataset', params=[P('size')]), name='dataset'),
               dict(K(1, 'Model', meta_inputs=[{'name': 'train::dataset'}]), name='model')]
        twobase = {'name': 'main', 'data': {'tasks': ['@M.Model'], 'uses': ['d.json as train', 'd.json as test']}}
        twoctx = {'dict': {'for_namespaces': {'train': {'size': 1}, 'test': {'size': 2}}}}
        for first, second in ((2, 0), (0, 2)):      # task order of the chain: train::dataset, model, test::dataset
            out.append(dict(classes=two, files={'d.json': {'tasks': ['@M.Dataset'], 'size': 0}}, base=twobase, context=twoctx,
                            ops=[{'op': 'build', 'base': twobase}, {'op': 'value', 'chain': 0, 'pick': 1},
                                 {'op': 'value', 'chain': 0, 'pick': 2},
                                 {'op': 'force_chain', 'chain': 0, 'picks': [first], 'recompute': False, 'delete': False},
                                 {'op': 'flags', 'chain': 0},
                                 {'op': 'force_chain', 'chain': 0, 'picks': [second], 'recompute': False, 'delete': True},
                                 {'op': 'flags', 'chain': 0}, {'op': 'has_data', 'chain': 0, 'pick': 1},
                                 {'op': 'value', 'chain': 0, 'pick': 1}, {'op': 'value', 'chain': 0, 'pick': 2}]))
        # a namespace whose name is a textual prefix of an input's name, with a same-named task at the root
        tx = [dict(K(0, 'TrainX', params=[P('seed')]), name='train_x'), dict(K(1, 'Model', meta_inputs=[{'cls': 0}]), name='model')]
        nsbase = {'name': 'main', 'data': {'tasks': ['@M.TrainX'], 'seed': 1, 'uses': 'inner.json as train'}}
        out.append(dict(classes=tx, files={'inner.json': {'tasks': ['@M.*'], 'seed': 2}}, base=nsbase, context=None,
                        ops=[{'op': 'build', 'base': nsbase}, {'op': 'value', 'chain': 0, 'pick': 0},
                             {'op': 'value', 'chain': 0, 'pick': 1}, {'op': 'value', 'chain': 0, 'pick': 2},
                             {'op': 'restart'}, {'op': 'build', 'base': nsbase}, {'op': 'value', 'chain': 0, 'pick': 1}]))
        # the same, with the inputs named in the signature of run (requested before the body of run starts)
        out.append(dict(classes=[dict(K(0, 'Up', data='memory'), name='up'),
                                 dict(K(1, 'Mid', meta_inputs=[{'cls': 0}]), name='mid', runargs=['up']),
                                 dict(K(2, 'Down', meta_inputs=[{'cls': 1}, {'cls': 0}]), name='down', runargs=['mid', 'up'])],
                        files={}, base=base, context=None,
                        ops=[{'op': 'build', 'base': base}, {'op': 'value', 'chain': 0, 'pick': 0}, {'op': 'restart'},
                             {'op': 'build', 'base': base}, {'op': 'value', 'chain': 0, 'pick': 0},
                             {'op': 'value', 'chain': 0, 'pick': 1}, {'op': 'restart'}, {'op': 'build', 'base': base},
                             {'op': 'value', 'chain': 0, 'pick': 1}, {'op': 'fail', 'slugs': ['up']},
                             {'op': 'force_task', 'chain': 0, 'pick': 0, 'delete': False},
                             {'op': 'value', 'chain': 0, 'pick': 0}, {'op': 'fail', 'slugs': []},
                             {'op': 'value', 'chain': 0, 'pick': 0}]))
        # a diamond a -> m -> n, a -> x: forcing lists that name a downstream task before its ancestor
        dia = [dict(K(0, 'A'), name='a'), dict(K(1, 'M', meta_inputs=[{'cls': 0}]), name='m'),
               dict(K(2, 'N', meta_inputs=[{'cls': 1}]), name='n'), dict(K(3, 'X', meta_inputs=[{'cls': 0}]), name='x')]
        for picks, rec, dele in (([1, 0], False, True), ([2, 0], True, False), ([1, 0], True, True), ([0, 1], False, False)):
            out.append(dict(classes=dia, files={}, base=base, context=None,
                            ops=[{'op': 'build', 'base': base}, {'op': 'value', 'chain': 0, 'pick': 2},
                                 {'op': 'value', 'chain': 0, 'pick': 3},
                                 {'op': 'force_chain', 'chain': 0, 'picks': picks, 'recompute': rec, 'delete': dele},
                                 {'op': 'flags', 'chain': 0}, {'op': 'has_data', 'chain': 0, 'pick': 0},
                                 {'op': 'has_data', 'chain': 0, 'pick': 3}, {'op': 'value', 'chain': 0, 'pick': 3},
                                 {'op': 'value', 'chain': 0, 'pick': 2}, {'op': 'restart'}, {'op': 'build', 'base': base},
                                 {'op': 'force_task', 'chain': 0, 'pick': 1, 'delete': False},
                                 {'op': 'force_chain', 'chain': 0, 'picks': [0], 'recompute': False, 'delete': True},
                                 {'op': 'flags', 'chain': 0}, {'op': 'has_data', 'chain': 0, 'pick': 2},
                                 {'op': 'value', 'chain': 0, 'pick': 2}]))
        # one task forced directly (Task.force): its unforced dependants with stored results are loaded, in a new chain
        # and after reset_data, before and after the forced task itself was asked
        for order in ([1, 2, 0, 1], [2, 0, 2, 1], [3, 1, 0, 3]):
            out.append(dict(classes=dia, files={}, base=base, context=None,
                            ops=[{'op': 'build', 'base': base}, {'op': 'value', 'chain': 0, 'pick': 2}, {'op': 'value', 'chain': 0, 'pick': 3},
                                 {'op': 'restart'}, {'op': 'build', 'base': base},
                                 {'op': 'force_task', 'chain': 0, 'pick': 0, 'delete': False}, {'op': 'flags', 'chain': 0}] +
                                [{'op': 'value', 'chain': 0, 'pick': k} for k in order] +
                                [{'op': 'force_task', 'chain': 0, 'pick': 1, 'delete': False}, {'op': 'reset', 'chain': 0, 'pick': 2},
                                 {'op': 'value', 'chain': 0, 'pick': 2}, {'op': 'reset', 'chain': 0, 'pick': 2},
                                 {'op': 'value', 'chain': 0, 'pick': 2}, {'op': 'value', 'chain': 0, 'pick': 1},
                                 {'op': 'flags', 'chain': 0}]))
        # a -> b -> c -> d: a task inside the closure is already marked when its ancestor is forced through the chain
        line = [dict(K(0, 'A'), name='a'), dict(K(1, 'B', meta_inputs=[{'cls': 0}]), name='b'),
                dict(K(2, 'C', meta_inputs=[{'cls': 1}]), name='c'), dict(K(3, 'D', meta_inputs=[{'cls': 2}]), name='d')]
        for rec in (False, True):
            out.append(dict(classes=line, files={}, base=base, context=None,
                            ops=[{'op': 'build', 'base': base}, {'op': 'value', 'chain': 0, 'pick': 3},
                                 {'op': 'force_task', 'chain': 0, 'pick': 1, 'delete': False},
                                 {'op': 'force_chain', 'chain': 0, 'picks': [0], 'recompute': rec, 'delete': False},
                                 {'op': 'flags', 'chain': 0}, {'op': 'value', 'chain': 0, 'pick': 3}, {'op': 'value', 'chain': 0, 'pick': 2},
                                 {'op': 'flags', 'chain': 0}, {'op': 'force_chain', 'chain': 0, 'picks': [1], 'recompute': False, 'delete': False},
                                 {'op': 'value', 'chain': 0, 'pick': 2}, {'op': 'force_chain', 'chain': 0, 'picks': [0], 'recompute': rec, 'delete': False},
                                 {'op': 'flags', 'chain': 0}, {'op': 'value', 'chain': 0, 'pick': 3}]))
        # an in-memory task inside the closure with two dependants, recomputed through the chain
        fan = [dict(K(0, 'Src'), name='src'), dict(K(1, 'Feat', meta_inputs=[{'cls': 0}], data='memory'), name='feat'),
               dict(K(2, 'R1', meta_inputs=[{'cls': 1}]), name='r1', runargs=['feat']), dict(K(3, 'R2', meta_inputs=[{'cls': 1}]), name='r2', runargs=['feat']),
               dict(K(4, 'R3', meta_inputs=[{'cls': 1}]), name='r3')]
        out.append(dict(classes=fan, files={}, base=base, context=None,
                        ops=[{'op': 'build', 'base': base}] + [{'op': 'value', 'chain': 0, 'pick': k} for k in (2, 3, 4)] +
                            [{'op': 'force_chain', 'chain': 0, 'picks': [0], 'recompute': True, 'delete': False}, {'op': 'flags', 'chain': 0}] +
                            [{'op': 'value', 'chain': 0, 'pick': k} for k in (2, 3, 4, 1)] +
                            [{'op': 'force_chain', 'chain': 0, 'picks': [1], 'recompute': True, 'delete': True}, {'op': 'flags', 'chain': 0}]))
        # a parameter left out of the key at its default value: configs that omit it, spell the default out in another type that
        # compares equal (1 for 1.0), or give a value of another type with the same text ('0' for 0), one after the other
        dd = [dict(K(0, 'Model', params=[P('smoothing', default=[1.0], dropdef=True), P('flag', default=[0], dropdef=True)]), name='model'),
              dict(K(1, 'Report', meta_inputs=[{'cls': 0}]), name='report')]
        variants = [{'tasks': ['@M.*']}, {'tasks': ['@M.*'], 'smoothing': 1}, {'tasks': ['@M.*'], 'flag': '0'},
                    {'tasks': ['@M.*'], 'flag': False, 'smoothing': 1.0}, {'tasks': ['@M.*'], 'flag': 'False'}]
        dbases = [{'name': f'v{i}', 'data': v} for i, v in enumerate(variants)]
        out.append(dict(classes=dd, files={}, base=dbases[0], context=None,
                        ops=[x for i, b in enumerate(dbases) for x in ({'op': 'build', 'base': b}, {'op': 'value', 'chain': i, 'pick': 1},
                                                                        {'op': 'value', 'chain': i, 'pick': 0})] +
                            [{'op': 'restart'}] + [x for i, b in enumerate(dbases[::-1]) for x in ({'op': 'build', 'base': b}, {'op': 'value', 'chain': i, 'pick': 1})]))
        # reset_data between forcing and the next request: the value held in memory goes, the mark stays
        out.append(dict(classes=dia, files={}, base=base, context=None,
                        ops=[{'op': 'build', 'base': base}, {'op': 'value', 'chain': 0, 'pick': 2},
                             {'op': 'force_task', 'chain': 0, 'pick': 1, 'delete': False}, {'op': 'reset', 'chain': 0, 'pick': 1},
                             {'op': 'flags', 'chain': 0}, {'op': 'value', 'chain': 0, 'pick': 1},
                             {'op': 'force_chain', 'chain': 0, 'picks': [0], 'recompute': False, 'delete': False},
                             {'op': 'reset', 'chain': 0, 'pick': 0}, {'op': 'reset', 'chain': 0, 'pick': 2}, {'op': 'flags', 'chain': 0},
                             {'op': 'value', 'chain': 0, 'pick': 2}, {'op': 'value', 'chain': 0, 'pick': 3},
                             {'op': 'reset', 'chain': 0, 'pick': 3}, {'op': 'value', 'chain': 0, 'pick': 3}]))
        # configurations from the chain-construction corpus whose tasks' values depend on per-namespace settings
        for c0 in [c for c in cs if c['base'].get('file') == 'multi.json' and 'model' in str(c['files']) or 'Collect' in str(c['classes'])
                   or c.get('hist')]:
            c1 = {k: v for k, v in c0.items() if k not in ('hist', 'records')}
            c1['ops'] = [{'op': 'build', 'base': c0['base']}] + [{'op': 'value', 'chain': 0, 'pick': k} for k in range(8)] + \
                        [{'op': 'restart'}, {'op': 'build', 'base': c0['base']}] + [{'op': 'value', 'chain': 0, 'pick': k} for k in range(8)]
            out.append(c1)
        # a chain is inspected while results are missing, another chain of the same configuration computes them, then
        # the first chain is asked: it loads
        out.append(dict(classes=dia, files={}, base=base, context=None,
                        ops=[{'op': 'build', 'base': base}, {'op': 'flags', 'chain': 0}, {'op': 'has_data', 'chain': 0, 'pick': 2},
                             {'op': 'has_data', 'chain': 0, 'pick': 0}, {'op': 'build', 'base': base},
                             {'op': 'value', 'chain': 1, 'pick': 2}, {'op': 'value', 'chain': 1, 'pick': 3},
                             {'op': 'value', 'chain': 0, 'pick': 2}, {'op': 'value', 'chain': 0, 'pick': 3},
                             {'op': 'flags', 'chain': 0}, {'op': 'value', 'chain': 0, 'pick': 0}]))
        # two mountings of one pipeline feed a task that is not symmetric in them; then the roles are swapped
        roles = [dict(K(0, 'Score', params=[P('x')]), name='score'),
                 dict(K(1, 'Compare', meta_inputs=[{'name': 'baseline::score'}, {'name': 'candidate::score'}]), name='compare')]
        rfiles = {'a.json': {'tasks': ['@M.Score'], 'x': 1}, 'b.json': {'tasks': ['@M.Score'], 'x': 2}}
        r1 = {'name': 'one', 'data': {'tasks': ['@M.Compare'], 'uses': ['a.json as baseline', 'b.json as candidate']}}
        r2 = {'name': 'two', 'data': {'tasks': ['@M.Compare'], 'uses': ['b.json as baseline', 'a.json as candidate']}}
        out.append(dict(classes=roles, files=rfiles, base=r1, context=None,
                        ops=[{'op': 'build', 'base': r1}] + [{'op': 'value', 'chain': 0, 'pick': k} for k in range(3)] +
                            [{'op': 'build', 'base': r2}] + [{'op': 'value', 'chain': 1, 'pick': k} for k in range(3)] +
                            [{'op': 'restart'}, {'op': 'build', 'base': r2}] + [{'op': 'value', 'chain': 0, 'pick': k} for k in range(3)]))
        return out

    def gen(self, rng, tier):
        from .gen_pipeline import gen_case
        out = []
        for _ in range(self.quick_n if tier == 'quick' else self.thorough_n):
            c = gen_case(rng)
            c['ops'] = gen_history(rng, c, mix=self.mix)
            out.append(c)
        return out

    def run_impl(self, case):
        return dict(steps=pl.run_history(case))

    def encode(self, case, obs):
        steps = obs.get('steps', [])
        ops = clist([cop(s['op']) for s in steps if s['op']['op'] != 'crash'])
        outs = clist(['(VDict ' + clist([
            cpair(cstr('out'), cout(s)),
            cpair(cstr('runs'), '(VList ' + clist([f'(VStr {cstr(r)})' for r in s['runs']]) + ')'),
            cpair(cstr('files'), '(VList ' + clist([f'(VStr {cstr(f)})' for f in s['files']]) + ')'),
        ]) + ')' for s in steps])
        return cpair(pl.cworld(case, 'M'), ops), outs

    def explain(self, case, obs):
        """First step on which model and implementation differ, with the model's view of it."""
        from . import coqrun
        i, o = self.encode(case, obs)
        defs = f'Definition the_in : {self.in_type} := {i}.\nDefinition the_out : {self.out_type} := {o}.\n'
        flags = coqrun.eval_expr(self, defs, 'map (fun p => value_eqb (fst p) (snd p)) (combine (hist_model the_in) the_out)')
        import re
        bs = re.findall(r'true|false', flags.split(':')[0])
        if 'false' not in bs:
            return f'lengths differ or all equal: {flags[:200]}'
        k = bs.index('false')
        m = coqrun.eval_expr(self, defs, f'nth_error (hist_model the_in) {k}')
        return dict(step=k, op=obs['steps'][k]['op'], impl={x: obs['steps'][k][x] for x in ('out', 'runs', 'files')}, model=m)

    checks = ('values',)

    def oracle(self, case, obs):
        return history_oracle(case, obs, self.checks)

    def nontrivial(self, case, obs):
        return sum(1 for s in obs.get('steps', []) if s['runs']) >= 2

    def key(self, case):
        return repr(case)

    def distribution(self, cases, obs):
        d = dict(ops={}, steps=0, runs=0, errors=0, restarts=0, files_max=0)
        for o in obs:
            for s in o.get('steps', []):
                k = s['op']['op']
                d['ops'][k] = d['ops'].get(k, 0) + 1
                d['steps'] += 1
                d['runs'] += len(s['runs'])
                d['errors'] += s['out'] == 'error'
                d['files_max'] = max(d['files_max'], len(s['files']))
        return d
