"""Value specifications shared by the persistence-related suites.

A *spec* is JSON-able: None, bool, int, float, str, list, dict (string keys), plus tagged dicts
  {'__auto__': cls, 'args': {name: spec}}        AutoParameterObject subclass instance
  {'__inst__': cls, 'args': [...], 'kwargs': {}} object instantiated from a config definition, no repr()
  {'__user__': text}                             ParameterObject with its own repr()
  {'__reprstr__': [shown, src]}                  ReprStr (substituted string)
`materialize` builds the Python object, `cspec` the Coq term of type `value`.
"""
import sys
import types

from .coqlit import cZ, cbool, clist, cpair, cstr

STR_ALPHA = list("ab1 ',:[]{}#$=\\\"") + ['é', '中', '😀', '\n', '\t', "'", '###', '$$$', "', '", '=', 'None', '1']


def _module():
    """A real importable module holding the parameter-object classes used by the generators."""
    name = 'tcv_dyn_objects'
    if name in sys.modules:
        return sys.modules[name]
    from taskchain.parameter import AutoParameterObject, ParameterObject
    m = types.ModuleType(name)
    src = '''
from taskchain.parameter import AutoParameterObject, ParameterObject
from taskchain.chain import ChainObject

class AutoA(AutoParameterObject):
    def __init__(self, a, b=1, verbose=False):
        self.a = a
        self._b = b
        self.verbose = verbose

class AutoB(AutoParameterObject):
    def __init__(self, x=None, y=None, debug=0):
        self._x = x
        self.y = y
        self.debug = debug

    @staticmethod
    def dont_persist_default_value_args():
        return ['y']

class Hooked(ChainObject, AutoParameterObject):
    """a parameter object that is told about the chain it is used in"""
    def __init__(self, a):
        self.a = a
        self._tcv_chain = None

    def init_chain(self, chain):
        self._tcv_chain = sorted(chain.tasks)

class AutoC(AutoParameterObject):
    """arguments whose names START with the names that are excluded from persistence (verbose, debug)"""
    def __init__(self, step, debug_max_rows=0, verbose_labels=False, debug=0):
        self.step = step
        self.debug_max_rows = debug_max_rows
        self.verbose_labels = verbose_labels
        self.debug = debug

class AutoS(AutoParameterObject):
    """keeps its argument as a set (what a class that wants membership tests does)"""
    def __init__(self, tags):
        self.tags = set(tags)

class AutoK(AutoParameterObject):
    """collects further keyword arguments and keeps them under the name of the ** parameter"""
    def __init__(self, a, **options):
        self.a = a
        self.options = options

class AutoV(AutoParameterObject):
    """collects positional arguments and keeps them under the name of the * parameter"""
    def __init__(self, *steps, mode='x'):
        self.steps = list(steps)
        self.mode = mode

class AutoP(AutoParameterObject):
    """keeps the argument as given in the private attribute and shows a processed form under the public name"""
    def __init__(self, path, scale=1):
        self._path = path
        self._scale = scale

    @property
    def path(self):
        return 'resolved:' + str(self._path)

    @property
    def scale(self):
        return float(self._scale) * 100

class AutoD(AutoParameterObject):
    """arguments left out of the text at their default value, with defaults of several types"""
    def __init__(self, x, rate=1.0, flag=1, opts={'a': 1, 'b': [2]}):
        self.x = x
        self.rate = rate
        self.flag = flag
        self.opts = opts

    @staticmethod
    def dont_persist_default_value_args():
        return ['rate', 'flag', 'opts']

class AutoX(AutoParameterObject):
    """extends the list of ignored arguments it gets from the base class, in place"""
    def __init__(self, source, workers=1, batch_size=8):
        self.source = source
        self.workers = workers
        self.batch_size = batch_size

    @staticmethod
    def ignore_persistence_args():
        args = AutoParameterObject.ignore_persistence_args()
        args += ['workers', 'batch_size']
        return args

class AutoW(AutoParameterObject):
    """persists arguments that AutoX ignores"""
    def __init__(self, lr, workers=1, batch_size=8):
        self.lr = lr
        self.workers = workers
        self.batch_size = batch_size

class AutoL(AutoParameterObject):
    """keeps the argument as given in the private attribute; the public property gives a normalised, lossy view"""
    def __init__(self, columns, limit=3):
        self._columns = columns
        self._limit = limit

    @property
    def columns(self):
        return sorted(set(self._columns))

    @property
    def limit(self):
        return min(self._limit, 10)

class AutoRegressor(AutoParameterObject):
    """a base class whose constructor its subclasses inherit"""
    def __init__(self, alpha, max_iter=100):
        self.alpha = alpha
        self.max_iter = max_iter

class AutoRidge(AutoRegressor):
    pass

class AutoLasso(AutoRegressor):
    pass

class User(ParameterObject):
    def __init__(self, text):
        self.text = text

    def repr(self):
        return self.text

class Plain:
    def __init__(self, *args, **kwargs):
        self.args = args
        self.kwargs = kwargs
'''
    exec(src, m.__dict__)
    for c in ('AutoA', 'AutoB', 'AutoC', 'Hooked', 'AutoS', 'AutoK', 'AutoV', 'AutoP', 'AutoD', 'AutoX', 'AutoW', 'AutoL', 'AutoRegressor', 'AutoRidge', 'AutoLasso', 'User', 'Plain'):
        getattr(m, c).__module__ = name
    sys.modules[name] = m
    return m


AUTO_SIGS = {
    'AutoA': dict(params=[('a', None), ('b', [1]), ('verbose', [False])], ignore=['verbose', 'debug'], dropdef=[]),
    'AutoB': dict(params=[('x', [None]), ('y', [None]), ('debug', [0])], ignore=['verbose', 'debug'], dropdef=['y']),
    'Hooked': dict(params=[('a', None)], ignore=['verbose', 'debug'], dropdef=[]),
    'AutoS': dict(params=[('tags', None)], ignore=['verbose', 'debug'], dropdef=[]),
    'AutoK': dict(params=[('a', None)], ignore=['verbose', 'debug'], dropdef=[], varkw='options'),
    'AutoV': dict(params=[('mode', ['x'])], ignore=['verbose', 'debug'], dropdef=[], varpos='steps'),
    'AutoP': dict(params=[('path', None), ('scale', [1])], ignore=['verbose', 'debug'], dropdef=[]),
    'AutoD': dict(params=[('x', None), ('rate', [1.0]), ('flag', [1]), ('opts', [{'a': 1, 'b': [2]}])], ignore=['verbose', 'debug'],
                  dropdef=['rate', 'flag', 'opts']),
    'AutoX': dict(params=[('source', None), ('workers', [1]), ('batch_size', [8])], ignore=['verbose', 'debug', 'workers', 'batch_size'], dropdef=[]),
    'AutoW': dict(params=[('lr', None), ('workers', [1]), ('batch_size', [8])], ignore=['verbose', 'debug'], dropdef=[]),
    **{c: dict(params=[('alpha', None), ('max_iter', [100])], ignore=['verbose', 'debug'], dropdef=[]) for c in ('AutoRegressor', 'AutoRidge', 'AutoLasso')},
    'AutoL': dict(params=[('columns', None), ('limit', [3])], ignore=['verbose', 'debug'], dropdef=[]),
    'AutoC': dict(params=[('step', None), ('debug_max_rows', [0]), ('verbose_labels', [False]), ('debug', [0])],
                  ignore=['verbose', 'debug'], dropdef=[]),
}


def materialize(spec):
    from taskchain.utils.data import ReprStr
    from taskchain.utils.clazz import find_and_instantiate_clazz
    m = _module()
    if isinstance(spec, list):
        return [materialize(x) for x in spec]
    if isinstance(spec, dict):
        if '__auto__' in spec:
            args = {k: materialize(v) for k, v in spec['args'].items()}
            varpos = AUTO_SIGS.get(spec['__auto__'], {}).get('varpos')
            return getattr(m, spec['__auto__'])(*(args.pop(varpos, []) if varpos else []), **args)
        if '__inst__' in spec:
            return find_and_instantiate_clazz(definition_of(spec))
        if '__user__' in spec:
            return m.User(spec['__user__'])
        if '__reprstr__' in spec:
            return ReprStr(spec['__reprstr__'][0], spec['__reprstr__'][1])
        return {k: materialize(v) for k, v in spec.items()}
    return spec


def definition_of(spec):
    """The config definition ({'class':..}) that produces the object, for specs without live objects."""
    if isinstance(spec, list):
        return [definition_of(x) for x in spec]
    if isinstance(spec, dict):
        if '__inst__' in spec:
            return {'class': f'tcv_dyn_objects.{spec["__inst__"]}', 'args': definition_of(spec['args']),
                    'kwargs': {k: definition_of(v) for k, v in spec['kwargs'].items()}}
        if '__auto__' in spec:
            varpos = AUTO_SIGS.get(spec['__auto__'], {}).get('varpos')
            d = {'class': f'tcv_dyn_objects.{spec["__auto__"]}',
                 'kwargs': {k: definition_of(v) for k, v in spec['args'].items() if k != varpos}}
            if varpos and varpos in spec['args']:
                d['args'] = definition_of(spec['args'][varpos])
            return d
        if '__user__' in spec:
            return {'class': 'tcv_dyn_objects.User', 'args': [spec['__user__']]}
        return {k: definition_of(v) for k, v in spec.items()}
    return spec


def py_equal(a, b):
    return materialize(a) == materialize(b)


def filtered_auto_args(spec):
    """Arguments that AutoParameterObject.repr keeps (ignored names and default-valued dropdef args removed)."""
    sig = AUTO_SIGS[spec['__auto__']]
    out = {}
    for name, default in sig['params']:
        if name in sig['ignore']:
            continue
        if name in spec['args']:
            v = spec['args'][name]
        else:
            v = default[0]
        if name in sig['dropdef'] and default is not None and py_equal(v, default[0]):
            continue
        out[name] = v
    declared = {name for name, _ in sig['params']}
    if sig.get('varkw'):     # the ** parameter: a mapping of the remaining keyword arguments, in the order given
        out[sig['varkw']] = {k: v for k, v in spec['args'].items() if k not in declared}
    if sig.get('varpos'):    # the * parameter: the list the class keeps
        out[sig['varpos']] = list(spec['args'].get(sig['varpos'], []))
    return out


def cspec(spec) -> str:
    if spec is None:
        return 'VNone'
    if isinstance(spec, bool):
        return f'(VBool {cbool(spec)})'
    if isinstance(spec, int):
        return f'(VInt {cZ(spec)})'
    if isinstance(spec, float):
        return f'(VFloat {cstr(repr(spec))})'
    if isinstance(spec, str):
        return f'(VStr {cstr(spec)})'
    if isinstance(spec, list):
        return '(VList ' + clist([cspec(x) for x in spec]) + ')'
    if isinstance(spec, dict):
        if '__auto__' in spec:
            args = filtered_auto_args(spec)
            return f'(VAuto {cstr(spec["__auto__"])} ' + clist([cpair(cstr(k), cspec(v)) for k, v in args.items()]) + ')'
        if '__inst__' in spec:
            return (f'(VInst {cstr("tcv_dyn_objects." + spec["__inst__"])} ' + clist([cspec(x) for x in spec['args']])
                    + ' ' + clist([cpair(cstr(k), cspec(v)) for k, v in spec['kwargs'].items()]) + ')')
        if '__user__' in spec:
            return f'(VUser {cstr(spec["__user__"])})'
        if '__reprstr__' in spec:
            return f'(VRepr {cstr(spec["__reprstr__"][0])} {cstr(spec["__reprstr__"][1])})'
        return '(VDict ' + clist([cpair(cstr(k), cspec(v)) for k, v in spec.items()]) + ')'
    raise TypeError(type(spec))


def rand_str(rng, rich=True):
    if not rich:
        return ''.join(rng.choice('abxy12_') for _ in range(rng.choice([0, 1, 2, 3])))
    return ''.join(rng.choice(STR_ALPHA) for _ in range(rng.choice([0, 1, 1, 2, 3, 5])))


def rand_scalar(rng, rich=True):
    r = rng.random()
    if r < 0.4:
        return rand_str(rng, rich)
    return rng.choice([None, True, False, 0, 1, -1, 2, 10, 123456789012, 1.0, 0.0, 2.5, -1.5, 1e16, 1e-07, 0.1, '1', 'None',
                       'True', '1.0'])


def rand_value(rng, depth=3, rich=True, objects=True):
    """objects: True (all kinds), 'plain' (only those the chain model instantiates), False"""
    r = rng.random()
    if depth <= 0 or r < 0.4:
        return rand_scalar(rng, rich)
    if r < 0.65:
        return [rand_value(rng, depth - 1, rich, objects) for _ in range(rng.choice([0, 1, 1, 2, 3]))]
    if r < 0.88 or not objects:
        keys = rng.sample(['k', 'a', 'b', 'z', 'é', "q'", 'k k', '1', ''] if rich else ['k', 'a', 'b', 'z'], rng.choice([0, 1, 2, 3]))
        return {k: rand_value(rng, depth - 1, rich, objects) for k in keys}
    k = rng.random() if objects is True else 0.6 + 0.4 * rng.random()
    if k < 0.35:
        args = {'a': rand_value(rng, depth - 1, rich, False)}
        if rng.random() < 0.6:
            args['b'] = rand_value(rng, depth - 1, rich, False)
        if rng.random() < 0.3:
            args['verbose'] = rng.choice([True, False])
        return {'__auto__': 'AutoA', 'args': args}
    if k < 0.6:
        args = {}
        for n in ('x', 'y', 'debug'):
            if rng.random() < 0.6:
                args[n] = rand_value(rng, depth - 1, rich, False) if n != 'debug' else rng.choice([0, 1, 2])
        return {'__auto__': 'AutoB', 'args': args}
    if k < 0.8:
        return {'__user__': rng.choice(['U()', 'U(1)', "U('x')", 'weird###$$$', 'u=1'])}
    return {'__inst__': 'Plain', 'args': [rand_value(rng, depth - 1, rich, False) for _ in range(rng.choice([0, 1, 2]))],
            'kwargs': {kk: rand_value(rng, depth - 1, rich, False) for kk in rng.sample(['k', 'a', 'z'], rng.choice([0, 1, 2]))}}


def has_object(spec):
    if isinstance(spec, list):
        return any(has_object(x) for x in spec)
    if isinstance(spec, dict):
        if any(k in spec for k in ('__auto__', '__inst__', '__user__')):
            return True
        return any(has_object(v) for v in spec.values())
    return False


def canon_spec(spec):
    """Order-insensitive canonical form (dicts sorted) used by oracles for 'same value'."""
    if isinstance(spec, list):
        return [canon_spec(x) for x in spec]
    if isinstance(spec, dict):
        return {k: canon_spec(spec[k]) for k in sorted(spec)}
    if isinstance(spec, float):
        return {'__float__': repr(spec)}
    if isinstance(spec, bool):
        return {'__bool__': spec}
    return spec
