"""Random pipelines + config trees with a ground truth, and the model-independent reference
(component-wise resolution, declared precedence of parameter sources) used by the oracles."""
import copy

from .suites_l0 import gen_decl, value_for_dtype
from .values import materialize, rand_value
from .props.c10 import ref_resolve, ref_match, parse as parse_name

TASK_NAMES = ['x', 'y', 'tx', 'train_x', 'aa', 'a', 'm', 'n', 'xn', 'prep_task']
GROUPS = ['', '', '', 'g', 'g:h', 'xg']
NAMESPACES = ['n', 'xn', 'train', 'ns', 'a', 'ns2']
PARAMS = ['a', 'b', 'lr', 'p']


def slug(c):
    from .pipeline import slug_of
    return slug_of(c)


def gen_classes(rng, n_docs=1):
    n = rng.choice([1, 2, 3, 3, 4, 5, 6, 8])
    classes, slugs = [], set()
    proto = {pn: gen_decl(rng, pn, rich=rng.random() < 0.15, objects='plain') for pn in PARAMS}
    for i in range(n):
        for _ in range(20):
            c = dict(id=i, cname=f'K{i:02d}', group=rng.choice(GROUPS), name=rng.choice(TASK_NAMES), params=[],
                     meta_inputs=[], param_inputs=[], data=rng.choice(['json', 'json', 'json', 'memory']))
            if slug(c) not in slugs:
                break
        else:
            c['name'] = f'u{i}'
        slugs.add(slug(c))
        if rng.random() < 0.06:
            c['abstract'] = True
        for pn in rng.sample(PARAMS, rng.choice([0, 0, 1, 1, 2])):
            d = dict(proto[pn]) if rng.random() < 0.85 else gen_decl(rng, pn, rich=False, objects='plain')
            if rng.random() < 0.3:
                d['ignore'], d['dropdef'] = rng.random() < 0.3, rng.random() < 0.5
            c['params'].append(d)
        c['doc'] = rng.randrange(n_docs)
        earlier = [k for k in classes if not k.get('abstract') and (k['doc'] == c['doc'] or rng.random() < 0.1)]
        chosen = set()
        for _ in range(rng.choice([0, 0, 1, 1, 2, 3])):
            if not earlier:
                break
            t = rng.choice(earlier)
            if t['id'] in chosen and rng.random() < 0.9:
                continue
            chosen.add(t['id'])
            r = rng.random()
            if r < 0.45:
                ref = {'cls': t['id']}
            elif r < 0.7:
                ref = {'name': t['name']}
            elif r < 0.85:
                ref = {'name': slug(t)}
            elif r < 0.93:
                ref = {'name': rng.choice(['~', '~~']) + rng.choice([t['name'], t['name'][:1] + '.*'])}
            else:
                ref = {'name': rng.choice(NAMESPACES) + '::' + rng.choice([t['name'], slug(t)])}
            if 'name' in ref and not ref['name'].startswith('~') and rng.random() < 0.25:
                c['param_inputs'].append(dict(ref=ref, default=[rng.choice([None, 0, 'dflt', [1]])] if rng.random() < 0.7 else None))
            elif 'cls' in ref and rng.random() < 0.15:
                c['param_inputs'].append(dict(ref=ref, default=[rng.choice([0, 'dflt'])] if rng.random() < 0.6 else None))
            else:
                c['meta_inputs'].append(ref)
        if rng.random() < 0.05:  # dangling or cyclic declarations
            c['meta_inputs'].append({'name': rng.choice(['nothing', '@later'])})
        # inputs named in the signature of run (requested before the body of run starts): only inputs given by
        # class, with a task name that is unambiguous among the inputs and is not a parameter name
        by = {k['id']: k for k in classes}
        refs = c['meta_inputs'] + [i['ref'] for i in c['param_inputs']]
        if refs and not any('name' in r and r['name'].startswith('~') for r in refs) and rng.random() < 0.4:
            shorts = [by[r['cls']]['name'] if 'cls' in r else r['name'].split(':')[-1] for r in refs]
            pnames = {p['name'] for p in c['params']}
            cands = [by[r['cls']]['name'] for r in c['meta_inputs'] if 'cls' in r
                     and shorts.count(by[r['cls']]['name']) == 1 and by[r['cls']]['name'] not in pnames
                     and by[r['cls']]['name'].isidentifier()]
            if cands:
                c['runargs'] = rng.sample(cands, rng.randrange(1, len(cands) + 1))
        classes.append(c)
    for c in classes:   # '@later': a reference to a class declared later (or to itself): cycles
        for r in c['meta_inputs']:
            if r.get('name') == '@later':
                r['name'] = classes[rng.randrange(c['id'], len(classes))]['name']
    return classes


def gen_case(rng):
    n_docs = rng.choice([1, 1, 2, 2, 3, 4])
    classes = gen_classes(rng, n_docs)
    docs = [dict(classes=[], vals={}, children=[]) for _ in range(n_docs)]
    # classes with their inputs tend to live in one document
    home = {}
    for c in classes:
        home[c['id']] = c.pop('doc')
        docs[home[c['id']]]['classes'].append(c['id'])
        if rng.random() < 0.08:
            docs[rng.randrange(n_docs)]['classes'].append(c['id'])
    for i in range(1, n_docs):
        parent = rng.randrange(i)
        docs[parent]['children'].append((i, None if rng.random() < 0.4 else rng.choice(NAMESPACES)))
        if rng.random() < 0.25:  # the same document mounted once more
            docs[rng.randrange(i)]['children'].append((i, rng.choice(NAMESPACES)))
    by_id = {c['id']: c for c in classes}
    for d in docs:
        for cid in d['classes']:
            for p in by_id[cid]['params']:
                r = rng.random()
                if p['cfg'] in d['vals'] or r < 0.03:
                    continue
                if r < 0.15 and p['default'] is not None:
                    continue
                if r < 0.18:
                    d['vals'][p['cfg']] = rand_value(rng, 2, rich=False, objects='plain')
                else:
                    d['vals'][p['cfg']] = value_for_dtype(rng, p['dtype'], rich=rng.random() < 0.1, objects='plain')
    gv = None
    if rng.random() < 0.2:
        gv = {'X': rng.choice(['v', 'dir/sub', '']), 'Y': 7}
        for d in docs:
            if rng.random() < 0.5:
                for k, v in list(d['vals'].items()):
                    if isinstance(v, str):
                        d['vals'][k] = rng.choice(['{X}/f', 'a{Y}', '{Z}', '{X}{X}'])
    multi = n_docs > 1 and rng.random() < 0.3
    files, path = {}, {}
    for i in range(n_docs):
        path[i] = f'multi.json#p{i}' if multi else f'cfg/d{i}.' + rng.choice(['json', 'yaml'])

    def doc_body(i):
        d = docs[i]
        body = {}
        uses = []
        for ch, ns in d['children']:
            ref = (f'#p{ch}' if multi else path[ch])
            uses.append(ref if ns is None else f'{ref} as {ns}')
        if uses:
            body['uses'] = uses if (len(uses) > 1 or rng.random() < 0.5) else uses[0]
        strs = [f'@M.K{cid:02d}' for cid in d['classes']]
        if d['classes'] and set(d['classes']) == set(by_id) and rng.random() < 0.3:
            strs = ['@M.*']
        if strs:
            body['tasks'] = strs
        if d['classes'] and rng.random() < 0.08:
            body['excluded_tasks'] = [f'@M.K{rng.choice(d["classes"]):02d}']
        body.update(copy.deepcopy(d['vals']))
        return body

    if multi:
        parts = {}
        for i in range(n_docs):
            parts[f'p{i}'] = doc_body(i)
        parts['p0']['main_part'] = True
        files['multi.json'] = {'configs': parts}
        base = {'file': 'multi.json'}
        if rng.random() < 0.35:      # a part named explicitly (not necessarily the main one)
            base = {'file': f'multi.json#p{rng.randrange(n_docs)}'}
    else:
        for i in range(1, n_docs):
            files[path[i]] = doc_body(i)
        if rng.random() < 0.5:
            files[path[0]] = doc_body(0)
            base = {'file': path[0]}
        else:
            base = {'name': 'base', 'data': doc_body(0)}
    # context
    context = None
    r = rng.random()
    if r < 0.6:
        all_cfg = sorted({p['cfg'] for c in classes for p in c['params']})
        dt_of = {p['cfg']: p['dtype'] for c in classes for p in c['params']}

        def ctx_val(k):
            if rng.random() < 0.12:
                return rng.choice([0, 1, 5, 'c', True, 2.5, None, [1]])
            return value_for_dtype(rng, dt_of[k], rich=False, objects='plain')
        nss = sorted({ns for d in docs for _, ns in d['children'] if ns})

        def ctx_dict():
            cd = {}
            for k in all_cfg:
                if rng.random() < 0.35:
                    cd[k] = ctx_val(k)
            fn = {}
            for ns in nss + ['nsX', 'n', 'ns::zz']:
                if rng.random() < 0.4:
                    fn[ns] = {k: ctx_val(k) for k in all_cfg if rng.random() < 0.5}
            if fn:
                cd['for_namespaces'] = fn
            return cd
        if r < 0.4:
            context = {'dict': ctx_dict()}
        elif r < 0.5:
            files['ctx/c0.json'] = ctx_dict()
            context = {'file': 'ctx/c0.json'}
        else:
            files['ctx/c1.yaml'] = ctx_dict()
            context = {'list': [{'dict': ctx_dict()}, {'file': 'ctx/c1.yaml'}, {'dict': ctx_dict()}][:rng.choice([2, 3])]}
    case = dict(classes=classes, files=files, base=base, context=context)
    if rng.random() < 0.15:
        # programmatically built data: mappings and sequences of parameter values are subclasses of dict / list
        case['mapping_class'] = rng.choice(['ordered', 'attr', 'default'])
    if gv is not None:
        case['global_vars'] = gv
    return case


# ---------------------------------------------------------------------------------------------
# reference semantics (independent of the Coq model): used by the oracles of C08 / C09 / C13 / C01
# ---------------------------------------------------------------------------------------------
class Unsure(Exception):
    """The reference declines to predict (feature outside what it describes)."""


def ref_contexts(case):
    """(global overrides, {namespace: overrides}) by the declared precedence: later contexts win;
    nested uses inside contexts are not described here."""
    ctx = case.get('context')
    if ctx is None:
        return {}, {}

    def one(c):
        if 'dict' in c:
            d = c['dict']
        elif 'file' in c:
            d = case['files'][c['file']]
        else:
            g, f = {}, {}
            for m in c['list']:
                g2, f2 = one(m)
                g.update(g2)
                for ns, vals in f2.items():
                    f.setdefault(ns, {}).update(vals)
            return g, f
        return load(d, None)

    def load(d, ns):
        # a context document loaded under namespace ns: its plain entries address ns (all configs when ns is None), its
        # for_namespaces entries the namespaces below ns; the contexts it uses follow it (and override it), a use
        # without `as` under the same namespace, `x as sub` under ns::sub
        plain = {k: v for k, v in d.items() if k not in ('for_namespaces', 'uses')}
        fn = {(f'{ns}::{k}' if ns else k): dict(v) for k, v in d.get('for_namespaces', {}).items()}
        if ns:
            g, f = {}, dict(fn)
            f[ns] = dict(plain)
        else:
            g, f = plain, fn
        uses = d.get('uses', [])
        for use in ([uses] if isinstance(uses, str) else uses):
            if '{' in use:
                raise Unsure('placeholder in a context uses path')
            if ' as ' in use:
                path, sub = use.split(' as ')
                sub_ns = f'{ns}::{sub}' if ns else sub
            else:
                path, sub_ns = use, ns
            g2, f2 = load(case['files'][path], sub_ns)
            g.update(g2)
            for k, vals in f2.items():
                f.setdefault(k, {}).update(vals)
        return g, f
    return one(ctx)


def ref_instances(case):
    """Config instances (document, namespace) reachable from the base, de-duplicated by (document, namespace)."""
    files = case['files']

    def doc_of(ref, current_file):
        if ref.startswith('#'):
            ref = current_file + ref
        if '#' in ref:
            f, part = ref.split('#')
            return f, part, files[f]['configs'][part]
        d = files[ref]
        if 'configs' in d:
            parts = [k for k, v in d['configs'].items() if v.get('main_part')]
            return ref, parts[0], d['configs'][parts[0]]
        return ref, None, d

    base = case['base']
    if 'file' in base:
        f, part, body = doc_of(base['file'], None)
        start = (f, part, body, None)
    else:
        start = (None, None, base['data'], None)
    seen, out = set(), []

    def visit(f, part, body, ns):
        key = (f if f else '<base>', part, ns)
        if key in seen:
            return
        seen.add(key)
        out.append(dict(file=f, part=part, body=body, ns=ns))
        uses = body.get('uses', [])
        for u in [uses] if isinstance(uses, str) else uses:
            if ' as ' in u:
                ref, inner = u.rsplit(' as ', 1)
                sub = f'{ns}::{inner}' if ns else inner
            else:
                ref, sub = u, ns
            f2, p2, b2 = doc_of(ref, f)
            visit(f2, p2, b2, sub)
    visit(*start)
    return out


def py_isinstance(dt, v):
    if v is None or dt == 'any':
        return True
    t = {'int': int, 'float': float, 'bool': bool, 'str': str, 'list': list, 'dict': dict, 'path': str}[dt]
    if isinstance(v, dict) and any(k.startswith('__') for k in v):
        return False
    return isinstance(v, t)


def ref_chain(case):
    """Expected tasks of the chain: {full name: dict(cls, ns, params, inputs)} or ('error', reason)."""
    by_id = {c['id']: c for c in case['classes']}
    by_cname = {c['cname']: c['id'] for c in case['classes']}
    g_over, ns_over = ref_contexts(case)
    gv = case.get('global_vars')
    tasks, owner = {}, {}
    for inst_no, inst in enumerate(ref_instances(case)):
        body, ns = inst['body'], inst['ns']

        def ids(field):
            out = []
            v = body.get(field, [])
            for s in [v] if isinstance(v, str) else v:
                if s.endswith('.*'):
                    out += sorted(by_id)
                else:
                    out.append(by_cname[s.split('.')[-1]])
            return out
        excluded = set(ids('excluded_tasks'))
        for cid in ids('tasks'):
            c = by_id[cid]
            if c.get('abstract') or cid in excluded:
                continue
            full = f'{ns}::{slug(c)}' if ns else slug(c)
            params, bound = {}, []
            for p in c['params']:
                k = p['cfg']
                if ns and ns in ns_over and k in ns_over[ns]:
                    v, src = ns_over[ns][k], 'context-namespace'
                elif k in g_over:
                    v, src = g_over[k], 'context'
                elif k in body:
                    v, src = body[k], 'config'
                elif p['default'] is not None:
                    v, src = p['default'][0], 'default'
                else:
                    return ('error', f'missing parameter {k} of {full}')
                if isinstance(v, str) and '{' in v and gv is not None and src != 'default':
                    raise Unsure('placeholder in a parameter value')
                if not py_isinstance(p['dtype'], v):
                    return ('error', f'type of parameter {k} of {full}')
                params[p['name']] = v
                bound.append((p, v, src == 'default'))
            if full in tasks and owner[full] != inst_no:
                return ('error', f'conflict: {full} declared by two configs')
            tasks[full] = dict(cls=cid, ns=ns, params=params, bound=bound, slug=slug(c), data=c['data'])
            owner[full] = inst_no
    names = list(tasks)
    for full, t in tasks.items():
        c, ns = by_id[t['cls']], t['ns']
        ins = {}
        decls = []
        for r in c['meta_inputs']:
            if 'name' in r and r['name'].startswith('~'):
                pat = r['name'].lstrip('~')
                for n2 in names:
                    same_ns = parse_name(n2)[0] == (ns.split('::') if ns else [])
                    local = n2.split('::')[-1]
                    ok = local.startswith(pat[:-2]) if pat.endswith('.*') else local == pat
                    if ok and (same_ns or r['name'].startswith('~~')):
                        decls.append(({'name': n2}, True, None))
            else:
                decls.append((r, True, None))
        for i in c['param_inputs']:
            decls.append((i['ref'], i['default'] is None, i['default']))
        for ref, required, default in decls:
            q = ref['name'] if 'name' in ref else slug(by_id[ref['cls']])
            if ns and not (q == ns or q.startswith(ns + '::')):
                q = f'{ns}::{q}'
            elif ns and q == ns:
                raise Unsure('input named like the namespace')
            if q in ins:
                return ('error', f'duplicate input {q} of {full}')
            found = ref_resolve(q, names, False)
            if found is None:
                if any(ref_match(q, n2, False) for n2 in names):
                    return ('error', f'input {q} of {full} is ambiguous')
                if required:
                    return ('error', f'input {q} of {full} not found')
                ins[q] = {'default': default[0]}
                continue
            key = found if 'name' in ref else q
            if key not in tasks:
                # a reference by class names exactly the task of that class: a task of a similar name does not stand in
                if required:
                    return ('error', f'input {q} of {full} not found')
                ins[q] = {'default': default[0]}
                continue
            ins[key] = {'task': key}
        t['inputs'] = ins
    # cycles
    state = {}

    def dfs(n):
        if state.get(n) == 1:
            return True
        if state.get(n) == 2:
            return False
        state[n] = 1
        for v in tasks[n]['inputs'].values():
            if 'task' in v and dfs(v['task']):
                return True
        state[n] = 2
        return False
    if any(dfs(n) for n in names):
        return ('error', 'cycle')
    return tasks


def ref_keys(tasks):
    """Storage key of every task of a reference chain, by the frozen scheme."""
    from . import oracle_frozen as fz
    keys = {}

    def key(n):
        if n not in keys:
            t = tasks[n]
            ins = {k: key(v['task']) for k, v in t['inputs'].items() if 'task' in v}
            keys[n] = fz.key_of(t['ns'], t['bound'], ins)
        return keys[n]
    for n in tasks:
        key(n)
    return keys


def ref_value(tasks, name, memo=None):
    """What the generated run() of `name` must return: the reference evaluation of the configuration."""
    from . import oracle_frozen as fz
    memo = {} if memo is None else memo
    if name in memo:
        return memo[name]
    t = tasks[name]
    ins = []
    for k, v in t['inputs'].items():
        if 'task' in v:
            ins.append([k.split('::')[-1], ref_value(tasks, v['task'], memo)])
        else:
            ins.append([k.split('::')[-1], {'__default__': v['default']}])
    ps = {}
    for d, v, fd in sorted(t['bound'], key=lambda b: b[0]['name']):
        txt = fz.param_text(d, v, fd)
        if txt is not None:
            ps[d['name']] = txt[len(d['name']) + 1:]
    memo[name] = {'i': ins, 'p': ps, 't': t['slug']}
    return memo[name]
