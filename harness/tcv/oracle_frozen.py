"""A frozen, self-contained re-implementation of the 1.4.0 storage scheme on value *specs*
(see values.py).  It shares no code with taskchain or with the Coq model: it is the third party in
the comparisons of C12 and the renderer used by the reference evaluator of C01.

key  = sha256( P + '$$$' + I ).hexdigest()[:32]
P    = 'None' if no parameter is persisted else '###'.join('name=repr' sorted by name)
I    = '###'.join('relative input name=input key' sorted by full input name)
path = <data dir>/<group levels>/<task name>/<key>[.<extension>]
"""
from hashlib import sha256


def py_equal(a, b):
    """Python == on specs (objects never equal unless the very same default object is used)."""
    if is_object(a) or is_object(b):
        return False
    if isinstance(a, list) and isinstance(b, list):
        return len(a) == len(b) and all(py_equal(x, y) for x, y in zip(a, b))
    if isinstance(a, dict) and isinstance(b, dict):
        return a.keys() == b.keys() and all(py_equal(a[k], b[k]) for k in a)
    if isinstance(a, (list, dict)) or isinstance(b, (list, dict)):
        return False
    return a == b


def is_object(v):
    return isinstance(v, dict) and any(k in v for k in ('__auto__', '__inst__', '__user__'))


def has_object(v):
    if isinstance(v, list):
        return any(has_object(x) for x in v)
    if isinstance(v, dict):
        return is_object(v) or any(has_object(x) for x in v.values())
    return False


def shown(v):
    return v['__reprstr__'][0] if isinstance(v, dict) and '__reprstr__' in v else v


def value_text(v):
    """Text of one value inside the key: naive quoting of strings, sorted dict items."""
    if isinstance(v, dict) and '__reprstr__' in v:
        return repr(v['__reprstr__'][1])
    if isinstance(v, dict) and '__user__' in v:
        return v['__user__']
    if isinstance(v, dict) and '__inst__' in v:
        a = ', '.join(value_text(x) for x in v['args'])
        k = ', '.join(f'{n}={value_text(x)}' for n, x in v['kwargs'].items())
        return f"tcv_dyn_objects.{v['__inst__']}({a}{', ' if a and k else ''}{k})"
    if isinstance(v, dict) and '__auto__' in v:
        # Class(name=repr(value), ...) over the arguments the class persists, sorted by name; repr() is Python's
        from .values import filtered_auto_args, materialize
        args = filtered_auto_args(v)
        if any(has_object(x) for x in args.values()):
            raise NotImplementedError('objects inside object arguments')
        return v['__auto__'] + '(' + ', '.join(f'{k}={materialize(args[k])!r}' for k in sorted(args)) + ')'
    if isinstance(v, list):
        return '[' + ', '.join(value_text(x) for x in v) + ']'
    if isinstance(v, dict):
        return '{' + ', '.join(f"'{k}': {value_text(v[k])}" for k in sorted(v)) + '}'
    if isinstance(v, str):
        return f"'{v}'"
    return repr(v)


def param_text(decl, value, from_default):
    """'name=repr' or None when the parameter is not persisted."""
    if decl['ignore']:
        return None
    if decl['dropdef'] and decl['default'] is not None:
        if decl['dtype'] == 'path' and value is not None:
            equal = False
        else:
            equal = from_default or py_equal(shown(value), shown(decl['default'][0]))
        if equal:
            return None
    if decl['dtype'] == 'path' and isinstance(value, str):
        return f"{decl['name']}={value!r}"
    return f"{decl['name']}={value_text(value)}"


def registry_text(bound):
    """bound: list of (decl, value, from_default)."""
    parts = [t for t in (param_text(d, v, f) for d, v, f in sorted(bound, key=lambda b: b[0]['name'])) if t is not None]
    return '###'.join(parts) if parts else 'None'


def key_of(namespace, bound, input_keys):
    """input_keys: {full input name: key}."""
    items = []
    for name, key in sorted(input_keys.items()):
        if namespace:
            assert name.startswith(namespace)
            name = name[len(namespace) + 2:]
        items.append(f'{name}={key}')
    text = f'{registry_text(bound)}$$${"###".join(items)}'
    return sha256(text.encode()).hexdigest()[:32]


EXT = {'json': 'json', 'numpy': 'npy', 'pandas': 'pd', 'figure': 'pickle', 'generated': 'jsonl', 'generatedlazy': 'jsonl',
       'memory': None, 'dir': None, 'continues': None, 'listnumpy': None}


def location(slug, key, data):
    ext = EXT[data]
    return '/'.join(slug.split(':')) + '/' + (f'{key}.{ext}' if ext else key)
