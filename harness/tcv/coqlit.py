"""Encode Python data as Coq (Gallina) literals for the generated case files."""


def cstr(s) -> str:
    """Python str (or bytes) -> term of type `str` (= list ascii of its UTF-8 bytes)."""
    b = s.encode('utf-8') if isinstance(s, str) else bytes(s)
    if all(32 <= c <= 126 for c in b):
        return '(lit "' + b.decode('ascii').replace('"', '""') + '")'
    return '(bytes [' + ';'.join(str(c) for c in b) + '])'


def cnat(n: int) -> str:
    assert n >= 0
    return f'{n}%nat'


def cZ(z: int) -> str:
    return f'({z})%Z'


def cbool(b) -> str:
    return 'true' if b else 'false'


def clist(items) -> str:
    return '[' + '; '.join(items) + ']'


def cpair(*items) -> str:
    return '(' + ', '.join(items) + ')'


def copt(x, enc) -> str:
    return 'None' if x is None else f'(Some {enc(x)})'


def cinl(x) -> str:
    return f'(inl {x})'


def cinr(x) -> str:
    return f'(inr {x})'
