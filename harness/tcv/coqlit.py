"""Encode Python data as Coq (Gallina) literals for the generated case files."""


def cstr(s) -> str:
    """Python str (or bytes) -> term of type `str` (= list ascii of its UTF-8 bytes)."""
    b = s.encode('utf-8') if isinstance(s, str) else bytes(s)
    if all(32 <= c <= 126 for c in b):
        return '(lit "' + b.decode('ascii').replace('"', '""') + '")'
    return '(bytes [' + ';'.join(str(c) for c in b) + '])'


def cnat(n: int) -> str:
    assert n >= 0
    return f'{n}%nat'


def cZ(z: int) -> str:
    return f'({z})%Z'


def cbool(b) -> str:
    return 'true' if b else 'false'


def clist(items) -> str:
    return '[' + '; '.join(items) + ']'


def cpair(*items) -> str:
    return '(' + ', '.join(items) + ')'


def copt(x, enc) -> str:
    return 'None' if x is None else f'(Some {enc(x)})'


def cinl(x) -> str:
    return f'(inl {x})'


def cinr(x) -> str:
    return f'(inr {x})'


def cvalue(v) -> str:
    """Python JSON-like value (plus ReprStr) -> term of type `value`."""
    from taskchain.utils.data import ReprStr
    import ast
    if v is None:
        return 'VNone'
    if isinstance(v, bool):
        return f'(VBool {cbool(v)})'
    if isinstance(v, int):
        return f'(VInt {cZ(v)})'
    if isinstance(v, float):
        return f'(VFloat {cstr(repr(v))})'
    if isinstance(v, ReprStr):
        return f'(VRepr {cstr(str(v))} {cstr(ast.literal_eval(repr(v)))})'
    if isinstance(v, str):
        return f'(VStr {cstr(v)})'
    if isinstance(v, (list, tuple)):
        return '(VList ' + clist([cvalue(x) for x in v]) + ')'
    if isinstance(v, dict):
        return '(VDict ' + clist([cpair(cstr(k), cvalue(x)) for k, x in v.items()]) + ')'
    raise TypeError(f'no value encoding for {type(v)}')


def jvalue(v):
    """JSON-able rendering of a value that keeps ReprStr visible (for replay files and oracles)."""
    from taskchain.utils.data import ReprStr
    if isinstance(v, ReprStr):
        return {'__reprstr__': [str(v), repr(v)]}
    if isinstance(v, (list, tuple)):
        return [jvalue(x) for x in v]
    if isinstance(v, dict):
        return {k: jvalue(x) for k, x in v.items()}
    return v
