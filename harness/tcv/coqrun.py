"""Build the Coq development and evaluate generated case files with vm_compute."""
import concurrent.futures
import fcntl
import os
import re
import shutil
import subprocess
import tempfile
import time
from pathlib import Path

VERIF = Path(__file__).resolve().parents[2]
COQ_DIR = VERIF / 'coq'
THEORIES = COQ_DIR / 'theories'
COQ_ARGS = ['-Q', str(THEORIES), 'TC', '-w', 'none']

FORBIDDEN = re.compile(
    r'\b(Admitted|admit|Axiom|Axioms|Parameter|Parameters|Conjecture|Admit Obligations|bypass_check)\b'
    r'|Unset\s+Guard|Unset\s+Positivity|Unset\s+Universe|type-in-type|impredicative-set|native_compute'
)
# axioms of the standard library that a property theorem may depend on (named in DESIGN.md section 2)
ALLOWED_AXIOMS = {
    'functional_extensionality_dep',
    'FunctionalExtensionality.functional_extensionality_dep',
    'proof_irrelevance',
    'ProofIrrelevance.proof_irrelevance',
    'Eqdep.Eq_rect_eq.eq_rect_eq',
    'Classical_Prop.classic',
}


def strip_comments(text: str) -> str:
    out, depth, i = [], 0, 0
    while i < len(text):
        if text.startswith('(*', i):
            depth += 1
            i += 2
        elif text.startswith('*)', i) and depth:
            depth -= 1
            i += 2
        else:
            if not depth:
                out.append(text[i])
            i += 1
    return ''.join(out)


def forbidden_tokens():
    """Scan every .v file of the development for constructs that would void the proofs."""
    hits = []
    for f in sorted(THEORIES.rglob('*.v')):
        body = strip_comments(f.read_text())
        for m in FORBIDDEN.finditer(body):
            hits.append(f'{f.relative_to(COQ_DIR)}: {m.group(0)}')
    return hits


def make(timeout=3000):
    """Full .vo build of the development (incremental), serialised by a lock file."""
    lock = open(COQ_DIR / '.build.lock', 'w')
    fcntl.flock(lock, fcntl.LOCK_EX)
    try:
        vs = sorted(str(p.relative_to(COQ_DIR)) for p in THEORIES.rglob('*.v'))
        listed = COQ_DIR / '.vfiles'
        if not (COQ_DIR / 'Makefile').exists() or not listed.exists() or listed.read_text().split() != vs:
            subprocess.run(['coq_makefile', '-f', '_CoqProject', '-o', 'Makefile'] + vs, cwd=COQ_DIR, check=True,
                           stdout=subprocess.DEVNULL)
            listed.write_text('\n'.join(vs))
        t0 = time.time()
        p = subprocess.run(['timeout', str(timeout), 'make', '-j16'], cwd=COQ_DIR, stdout=subprocess.PIPE,
                           stderr=subprocess.STDOUT, text=True)
        return p.returncode == 0, p.stdout, time.time() - t0
    finally:
        fcntl.flock(lock, fcntl.LOCK_UN)
        lock.close()


def check_property_file(pid: str, timeout=900):
    """Re-run coqc on Properties/<pid>.v and parse the Print Assumptions output.

    Returns dict(ok, theorems, closed, axioms: {thm: [names]}, bad_axioms, output)."""
    src = THEORIES / 'Properties' / f'{pid}.v'
    if not src.exists():
        return dict(ok=False, theorems=[], printed=[], closed=0, axioms={}, bad_axioms=[], rc=-2,
                    output=f'{src} does not exist')
    text = strip_comments(src.read_text())
    theorems = re.findall(r'^\s*Theorem\s+(\w+)', text, re.M)
    printed = re.findall(r'Print Assumptions\s+(\w+)\s*\.', text)
    examples = re.findall(r'^\s*Example\s+(\w+)', text, re.M)
    scratch = tempfile.mkdtemp(prefix='tcverif-prop-')
    try:
        tmp = Path(scratch) / f'{pid}.v'
        shutil.copy(src, tmp)
        p = subprocess.run(['timeout', str(timeout), 'coqc'] + COQ_ARGS + [str(tmp)], stdout=subprocess.PIPE,
                           stderr=subprocess.STDOUT, text=True, cwd=scratch)
    finally:
        shutil.rmtree(scratch, ignore_errors=True)
    out = p.stdout
    blocks = re.split(r'(?=^Closed under the global context|^Axioms:)', out, flags=re.M)
    blocks = [b for b in blocks if b.startswith('Closed under') or b.startswith('Axioms:')]
    axioms, closed, bad = {}, 0, []
    for thm, b in zip(printed, blocks):
        if b.startswith('Closed under'):
            closed += 1
            axioms[thm] = []
        else:
            names = re.findall(r'^(\S+)\s*:', b[len('Axioms:'):], re.M)
            names += re.findall(r'^(\S+)\s*$', b[len('Axioms:'):], re.M)
            axioms[thm] = names
            for n in names:
                if n not in ALLOWED_AXIOMS:
                    bad.append(f'{thm}: {n}')
    ok = p.returncode == 0 and len(blocks) == len(printed) and set(theorems) <= set(printed) and not bad
    return dict(ok=ok, theorems=theorems, printed=printed, closed=closed, axioms=axioms, bad_axioms=bad, examples=examples,
                output=out[-4000:], rc=p.returncode)


HEADER = '''From Coq Require Import String Ascii List Bool Arith ZArith.
From TC Require Import PyStr Harness {imports}.
Import ListNotations.
Local Open Scope string_scope.
{prelude}
'''


def _run_coqc(path: Path, timeout):
    p = subprocess.run(['timeout', str(timeout), 'coqc'] + COQ_ARGS + [str(path)], stdout=subprocess.PIPE,
                       stderr=subprocess.STDOUT, text=True, cwd=path.parent)
    return p.returncode, p.stdout


def eval_mismatches(suite, pairs, shard=250, timeout=600, jobs=16):
    """pairs: list of (input_term, output_term). Returns (mismatch indices, errors)."""
    scratch = Path(tempfile.mkdtemp(prefix='tcverif-cases-'))
    try:
        files = []
        for k in range(0, len(pairs), shard):
            chunk = pairs[k:k + shard]
            f = scratch / f'cases_{k}.v'
            body = HEADER.format(imports=suite.imports, prelude=suite.prelude)
            body += f'Definition cases : list ({suite.in_type} * {suite.out_type}) := [\n'
            body += ';\n'.join(f'({i}, {o})' for i, o in chunk)
            body += f'\n].\nEval vm_compute in (mismatches {suite.eqb or '(dec_eqb ' + suite.eq_dec + ')'} {suite.model} cases).\n'
            f.write_text(body)
            files.append((k, f))
        mism, errors = [], []
        with concurrent.futures.ThreadPoolExecutor(max_workers=jobs) as ex:
            futs = {ex.submit(_run_coqc, f, timeout): (k, f) for k, f in files}
            for fut in concurrent.futures.as_completed(futs):
                k, f = futs[fut]
                rc, out = fut.result()
                m = re.search(r'=\s*\[(.*?)\]\s*:\s*list nat', out, re.S)
                if rc != 0 or not m:
                    errors.append(f'shard {k}: rc={rc}: {out[-1500:]}')
                    continue
                inner = m.group(1)
                for tok in re.findall(r'\d+', inner):
                    mism.append(k + int(tok))
        return sorted(mism), errors
    finally:
        shutil.rmtree(scratch, ignore_errors=True)


def prettify(text: str) -> str:
    """Render Coq's list-of-ascii output as quoted strings."""
    def chars(m):
        body = m.group(0)
        cs = re.findall(r'"((?:[^"]|"")*)"%char', body)
        return '"' + ''.join(c.replace('""', '"') for c in cs) + '"'
    text = re.sub(r'\[\s*(?:"(?:[^"]|"")*"%char\s*;?\s*)+\]', chars, text)
    return re.sub(r'\s+', ' ', text)


def eval_model(suite, input_term, timeout=300):
    """Evaluate the model on one input; returns Coq's printed answer (text)."""
    scratch = Path(tempfile.mkdtemp(prefix='tcverif-one-'))
    try:
        f = scratch / 'one.v'
        body = HEADER.format(imports=suite.imports, prelude=suite.prelude)
        body += f'Definition the_input : {suite.in_type} := {input_term}.\n'
        body += f'Eval vm_compute in ({suite.model} the_input).\n'
        f.write_text(body)
        rc, out = _run_coqc(f, timeout)
        return prettify(out.strip())
    finally:
        shutil.rmtree(scratch, ignore_errors=True)


def eval_expr(suite, defs: str, expr: str, timeout=300):
    """Evaluate an arbitrary expression in the suite's environment (debugging / replay detail)."""
    scratch = Path(tempfile.mkdtemp(prefix='tcverif-expr-'))
    try:
        f = scratch / 'expr.v'
        body = HEADER.format(imports=suite.imports, prelude=suite.prelude) + defs + f'\nEval vm_compute in ({expr}).\n'
        f.write_text(body)
        rc, out = _run_coqc(f, timeout)
        return prettify(out.strip())
    finally:
        shutil.rmtree(scratch, ignore_errors=True)
