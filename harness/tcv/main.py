import argparse
import importlib
import os
import sys


def main():
    ap = argparse.ArgumentParser()
    ap.add_argument('pid')
    ap.add_argument('--tier', default=os.environ.get('VERIF_TIER', 'quick'), choices=['quick', 'thorough'])
    ap.add_argument('--replay')
    a = ap.parse_args()
    seed = int(os.environ.get('VERIF_SEED', '20260930'))
    import logging
    logging.getLogger().addHandler(logging.NullHandler())
    mod = importlib.import_module(f'tcv.props.{a.pid.lower()}')
    from .core import main_check
    sys.exit(main_check(mod.PROP, a.tier, seed, a.replay))


if __name__ == '__main__':
    main()
