"""One-off generator of the golden Examples of Properties/C12.v (run at the pinned commit):
   PYTHONPATH=/repo/src:/verif/harness /venv/bin/python -m tcv.mkgolden"""
import logging

from .suites_chain import K, P
from . import pipeline as pl
from .coqlit import clist, cpair, cstr

logging.getLogger().addHandler(logging.NullHandler())

CASES = {
    'no_params': dict(classes=[K(0, 'Abc')], files={}, base={'name': 'm', 'data': {'tasks': ['@M.Abc']}}, context=None),
    'values': dict(
        classes=[K(0, 'Train', group='g', params=[P('lr'), P('names'), P('opts'), P('flag'), P('none'), P('big'),
                                                  P('skip', ignore=True), P('dflt', default=[3], dropdef=True)])],
        files={}, context=None,
        base={'name': 'm', 'data': {'tasks': ['@M.Train'], 'lr': 0.001, 'names': ['a', 'b', ['c', 1, None]],
                                    'opts': {'z': 1.5, 'a': {'k': [True, False]}}, 'flag': True, 'none': None,
                                    'big': 123456789012345678901234567890, 'skip': 'whatever', 'dflt': 3}}),
    'groups_and_inputs': dict(
        classes=[K(0, 'Load', group='data:raw', params=[P('path', dtype='path')]),
                 K(1, 'Clean', group='data', meta_inputs=[{'cls': 0}], params=[P('mode', default=['strict'])]),
                 K(2, 'Fit', meta_inputs=[{'name': 'clean'}, {'name': 'data:raw:load'}], params=[P('k')])],
        files={}, context=None,
        base={'name': 'm', 'data': {'tasks': ['@M.*'], 'path': "/d/it's here", 'k': 5}}),
    'namespaces': dict(
        classes=[K(0, 'Load', group='data', params=[P('src')]), K(1, 'Fit', meta_inputs=[{'cls': 0}], params=[P('k')])],
        files={'pipe.json': {'tasks': ['@M.*'], 'src': 's1', 'k': 1},
               'main.yaml': {'uses': ['pipe.json as train', 'pipe.json as test::inner']}},
        base={'file': 'main.yaml'}, context={'dict': {'for_namespaces': {'test::inner': {'src': 's2'}}, 'k': 2}}),
    'data_classes': dict(
        classes=[K(0, 'J'), K(1, 'M', data='memory'), K(2, 'N', data='numpy'), K(3, 'Pd', data='pandas'),
                 K(4, 'G', data='generated'), K(5, 'D', data='dir'), K(6, 'C', data='continues'),
                 K(7, 'L', data='listnumpy', group='arrays')],
        files={}, context=None, base={'name': 'm', 'data': {'tasks': ['@M.*']}}),
    'placeholders_and_objects': dict(
        classes=[K(0, 'Abc', params=[P('dir'), P('obj'), P('user'), P('uni')])], files={}, context=None,
        global_vars={'ROOT': '/mnt/x'},
        base={'name': 'm', 'data': {'tasks': ['@M.Abc'], 'dir': '{ROOT}/models', 'uni': 'žluťoučký 中 😀',
                                    'obj': {'__inst__': 'Plain', 'args': ['s', 1], 'kwargs': {'z': [1], 'a': 'x'}},
                                    'user': {'__user__': 'Tokenizer(lower=True)'}}}),
    'multi_config': dict(
        classes=[K(0, 'Abc', params=[P('x'), P('y', default=[5])]),
                 K(1, 'Dfg', group='g', meta_inputs=[{'cls': 0}], params=[P('z', default=[0], dropdef=True)])],
        files={'config.json': {'configs': {
            'c1': {'tasks': ['@M.Abc'], 'x': 1, 'y': 1},
            'c2': {'tasks': ['@M.Abc', '@M.Dfg'], 'x': 2, 'y': 2},
            'c': {'main_part': True, 'uses': ['#c1 as ns', '#c2 as ns2'], 'z': 2}}}},
        base={'file': 'config.json'},
        context={'dict': {'for_namespaces': {'ns': {'x': 11}, 'ns2': {'x': 21}, 'nsX': {'x': 77}}, 'x': 666, 'y': 33}}),
}


def main():
    out = []
    for name, case in CASES.items():
        with pl.workspace(case) as (d, mod):
            chain = pl.build_config(case, mod).chain()
            rows = []
            for tname, t in chain.tasks.items():
                d0 = t._data_without_value
                rows.append((tname, pl.rel_path(d0._path), pl.rel_path(d0.run_info_path), pl.rel_path(d0.log_path)))
        lit = clist([cpair(*[cstr(x) for x in r]) for r in rows])
        out.append(f'Example C12_golden_{name} :\n  golden_paths ({pl.cworld(case, "M")})\n    ({pl.cbase(case["base"], "M")})\n'
                   f'  = Some {lit}.\nProof. vm_compute. reflexivity. Qed.\n')
    print('\n'.join(out))


if __name__ == '__main__':
    main()
