"""Writes harness/tcv/suites_doc.json: per property, the suites its check runs (name, whether the model is evaluated
on its cases, first sentence of its description).  PYTHONPATH=/repo/src:/verif/harness /venv/bin/python -m tcv.listsuites"""
import importlib
import json
from pathlib import Path


def main():
    out = {}
    for i in range(1, 21):
        pid = f'C{i:02d}'
        prop = importlib.import_module(f'tcv.props.c{i:02d}').PROP
        rows = []
        for s in prop.suites:
            doc = ' '.join((type(s).__doc__ or '').split())
            rows.append(dict(name=s.name, tied_to_model=bool(s.model), what=doc[:400]))
        out[pid] = rows
    Path(__file__).with_name('suites_doc.json').write_text(json.dumps(out, indent=1))


if __name__ == '__main__':
    main()
