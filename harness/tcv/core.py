"""Decision procedure shared by all property checks (DESIGN.md section 1.3)."""
import hashlib
import re
import json
import os
import random
import sys
import time
import traceback
from pathlib import Path

from . import coqrun

VERIF = coqrun.VERIF
import os as _os
_OUT = Path(_os.environ['TCV_OUT']) if _os.environ.get('TCV_OUT') else VERIF
EVIDENCE = _OUT / 'evidence'
REPLAYS = _OUT / 'replays'
KNOWN_FILE = VERIF / 'known_findings.json'

KERNEL_TB = [
    'Coq 8.16.1 kernel (coqc, full .vo build); vm_compute used for closed Examples and for evaluating the model '
    'in the correspondence check; no native_compute',
    'hand-written Gallina model of the named taskchain functions (theories/Model); the theorems are about the '
    'model, the tie to /repo is the differential correspondence check run by this command',
    'correspondence harness (/verif/harness: generators, canonicalisation, exception-to-enum map) and CPython 3.12',
]


class Suite:
    """One family of correspondence cases: a model function evaluated inside Coq vs the implementation."""
    name = ''
    imports = ''
    prelude = ''
    in_type = ''
    out_type = ''
    eq_dec = ''
    eqb = ''
    model = ''
    shard = 250

    def corpus(self):  # minimised past disagreements / witnesses, run first
        return []

    def gen(self, rng: random.Random, tier: str):
        raise NotImplementedError

    def run_impl(self, case):
        raise NotImplementedError

    def encode(self, case, obs):
        raise NotImplementedError

    def oracle(self, case, obs):
        """Model-independent statement of the property on one executed case: None or a description."""
        return None

    def nontrivial(self, case, obs):
        return True

    def key(self, case):
        return json.dumps(case, sort_keys=True, default=str)

    def setup(self):
        pass

    def teardown(self):
        pass


class Prop:
    pid = ''
    suites = []
    level = 'proof'
    trusted_base = []
    assumptions = []
    known_classes = {}  # class name -> predicate(violation dict) -> bool

    def extra_checks(self, ctx):
        """Property-specific checks beyond suites; returns list of violation dicts."""
        return []


def load_known(pid):
    if not KNOWN_FILE.exists():
        return []
    return [k for k in json.loads(KNOWN_FILE.read_text()) if k.get('property') == pid]


class CaseTimeout(Exception):
    pass


CASE_TIMEOUT_S = 300


def safe_impl(suite, case):
    import signal
    import threading

    def on_alarm(signum, frame):
        raise CaseTimeout(f'the implementation did not answer within {limit} s')
    armed = threading.current_thread() is threading.main_thread()
    limit = getattr(suite, 'case_timeout', CASE_TIMEOUT_S)
    if armed:
        old = signal.signal(signal.SIGALRM, on_alarm)
        signal.alarm(limit)
    try:
        return suite.run_impl(case)
    except Exception as e:  # an exception the driver did not anticipate (a hang included) is itself an observable
        return {'unexpected_exception': type(e).__name__, 'text': str(e)[:300],
                'tb': traceback.format_exc()[-800:]}
    finally:
        if armed:
            signal.alarm(0)
            signal.signal(signal.SIGALRM, old)


def write_replay(pid, payload):
    REPLAYS.mkdir(parents=True, exist_ok=True)
    blob = json.dumps(payload, sort_keys=True, default=str, indent=1)
    h = hashlib.sha256(blob.encode()).hexdigest()[:8]
    path = REPLAYS / f'{pid}-{h}.json'
    path.write_text(blob)
    return path


def run_suite(suite, rng, tier, stats, scale=1):
    """Returns (cases, observations, mismatch indices, coq errors, oracle failures)."""
    cases = list(suite.corpus())
    n_corpus = len(cases)
    cases += list(suite.gen(rng, tier) if scale == 1 else suite.gen(rng, 'thorough'))
    suite.setup()
    try:
        obs = [safe_impl(suite, c) for c in cases]
    finally:
        suite.teardown()
    unencodable = {}
    if suite.model:
        pairs, good = [], []
        for i, (c, o) in enumerate(zip(cases, obs)):
            try:
                pairs.append(suite.encode(c, o))
                good.append(i)
            except Exception as e:   # the implementation answered with something the suite has no encoding for
                pairs.append(None)
                unencodable[i] = (f'the implementation\'s answer has an unexpected shape ({type(e).__name__}: {e}): '
                                  f'{json.dumps(o, default=str)[:300]}')
        m, errors = coqrun.eval_mismatches(suite, [pairs[i] for i in good], shard=suite.shard)
        mism = [good[j] for j in m]
    else:   # a harness-only suite (runtime matter outside the model): oracle only
        pairs, mism, errors = [None] * len(cases), [], []
    failures = []
    for i, (c, o) in enumerate(zip(cases, obs)):
        try:
            msg = suite.oracle(c, o)
        except Exception as e:
            msg = f'oracle raised {type(e).__name__}: {e}'
        if not msg and i in unencodable:
            msg = unencodable[i]
        if msg:
            failures.append((i, msg))
    keys = set()
    nontriv = 0
    for c, o in zip(cases, obs):
        k = suite.key(c)
        if k in keys:
            continue
        keys.add(k)
        if suite.nontrivial(c, o):
            nontriv += 1
    stats.append(dict(suite=suite.name, cases=len(cases), corpus=n_corpus, distinct=len(keys),
                      distinct_nontrivial=nontriv, mismatches=len(mism), coq_errors=len(errors),
                      oracle_failures=len(failures),
                      distribution=suite.distribution(cases, obs) if hasattr(suite, 'distribution') else None,
                      sample=dict(case=cases[min(len(cases) - 1, n_corpus)], observed=obs[min(len(cases) - 1, n_corpus)])
                      if cases else None))
    return cases, obs, pairs, mism, errors, failures


def covered_by_known(prop, known, violation):
    for k in known:
        if k.get('status') != 'open':
            continue
        pred = prop.known_classes.get(k.get('class'))
        if pred and pred(violation, k):
            return k
    return None


def main_check(prop, tier, seed, replay=None):
    t0 = time.time()
    pid = prop.pid
    os.environ.setdefault('TASKCHAIN_VERIF', '1')
    known = load_known(pid)
    if replay:
        return do_replay(prop, replay)
    for old in REPLAYS.glob(f'{pid}-*.json'):
        old.unlink()

    # 1. proofs
    build_ok, build_log, build_s = coqrun.make()
    forb = coqrun.forbidden_tokens()
    pres = coqrun.check_property_file(pid) if build_ok else dict(ok=False, theorems=[], printed=[], closed=0,
                                                                  axioms={}, bad_axioms=[], output=build_log[-3000:],
                                                                  rc=-1)
    proof_ok = build_ok and pres['ok'] and not forb
    broken = []
    if not build_ok:
        broken.append('coq build failed')
    if build_ok and not pres['ok']:
        broken.append(f'Properties/{pid}.v does not check (rc={pres["rc"]}, bad axioms={pres["bad_axioms"]})')
    if forb:
        broken.append('forbidden constructs: ' + '; '.join(forb[:5]))

    # 2. correspondence + oracle on every executed case
    rng = random.Random(seed)
    stats, violations, known_lines = [], [], []
    unexplained = []
    total_cases = 0
    for suite in prop.suites:
        cases, obs, pairs, mism, errors, failures = run_suite(suite, rng, tier, stats)
        total_cases += len(cases)
        failed_idx = set()
        for i, msg in failures:
            failed_idx.add(i)
            v = dict(property=pid, kind='counterexample', suite=suite.name, seed=seed, case=cases[i],
                     observed=obs[i], oracle=msg, model_disagrees=i in mism)
            k = covered_by_known(prop, known, v)
            if k:
                continue
            violations.append(v)
        for i in mism:
            if i in failed_idx:
                continue
            unexplained.append((suite, cases[i], obs[i], pairs[i]))
        if os.environ.get('TCV_DEBUG'):
            for i in mism[:int(os.environ['TCV_DEBUG'])]:
                print('MISMATCH', suite.name, json.dumps(cases[i], default=str)[:1500])
                if not hasattr(suite, 'explain'):
                    print('   impl :', json.dumps(obs[i], default=str)[:1500])
                if hasattr(suite, 'explain'):
                    print('   explain:', json.dumps(suite.explain(cases[i], obs[i]), default=str)[:4000])
                else:
                    print('   model:', coqrun.eval_model(suite, pairs[i][0])[-1500:])
        for e in errors:
            broken.append(f'correspondence {suite.name}: Coq could not evaluate a shard: {e[-300:]}')
    for v in prop.extra_checks(dict(tier=tier, seed=seed, rng=rng)):
        if not covered_by_known(prop, known, v):
            violations.append(v)

    # 3. known findings are replayed on the implementation
    for k in known:
        if k.get('status') != 'open':
            continue
        suite = next((s for s in prop.suites if s.name == k['witness']['suite']), None)
        if suite is None:
            continue
        suite.setup()
        try:
            o = safe_impl(suite, k['witness']['case'])
        finally:
            suite.teardown()
        if suite.oracle(k['witness']['case'], o):
            known_lines.append(f'KNOWN-FINDING: property={pid} {k["what"]}')

    # 4. a broken proof or correspondence without a counterexample: widen the search, then report
    if (unexplained or broken) and not violations:
        rng2 = random.Random(seed + 7919)
        for suite in prop.suites:
            cases, obs, pairs, mism, errors, failures = run_suite(suite, rng2, 'thorough', [], scale=5)
            for i, msg in failures:
                v = dict(property=pid, kind='counterexample', suite=suite.name, seed=seed + 7919, case=cases[i],
                         observed=obs[i], oracle=msg, found_by='widened search after a broken proof/correspondence')
                if not covered_by_known(prop, known, v):
                    violations.append(v)
                    break
            if violations:
                break
    out_lines = []
    n_viol = 0
    seen = set()
    for v in violations[:20]:
        sig = (v.get('suite'), re.sub(r'[-0-9\[\], ]+', '#', v.get('oracle', ''))[:60])
        if sig in seen or len(seen) >= 3:
            continue
        seen.add(sig)
        path = write_replay(pid, v)
        out_lines.append(f'VIOLATION property={pid} replay={path}')
        n_viol += 1
    if (unexplained or broken) and not violations:
        names = list(broken)
        payload = dict(property=pid, kind='unproved', seed=seed, broken=names)
        if unexplained:
            suite, case, o, pair = unexplained[0]
            names.append(f'correspondence {suite.name}: model and implementation disagree on {len(unexplained)} case(s)')
            payload.update(suite=suite.name, case=case, observed=o,
                           model=coqrun.eval_model(suite, pair[0])[-2000:], broken=names)
        path = write_replay(pid, payload)
        out_lines.append(f'VIOLATION property={pid} replay={path} no-failing-input-found')
        n_viol += 1

    # 5. evidence
    wall = time.time() - t0
    evaluations = sum(s['cases'] for s in stats)
    dn = sum(s['distinct_nontrivial'] for s in stats)
    cov = dict(
        obligations=len(pres['theorems']),
        discharged=len([t for t in pres['theorems'] if t in pres['axioms']]) if proof_ok else 0,
        checker_cmd=f'make -C /verif/coq -j16 && coqc -Q /verif/coq/theories TC theories/Properties/{pid}.v '
                    f'(Print Assumptions under every theorem)',
        trusted_base=KERNEL_TB + list(prop.trusted_base),
        theorems=pres['theorems'],
        kernel_checked_examples=pres.get('examples', []),
        axioms_per_theorem=pres['axioms'],
        evaluations=evaluations,
        distinct_nontrivial=dn,
        rule=getattr(prop, 'rule', 'cases are generated from one seeded PRNG per suite; distinct = distinct case '
                                   'description; non-trivial per suite as stated in its entry'),
        samples=[s['sample'] for s in stats if s['sample']],
        suites=[{k: v for k, v in s.items() if k != 'sample'} for s in stats],
        disagreements_checked=evaluations,
        disagreements=len(unexplained),
        known_findings_replayed=known_lines,
        build_seconds=round(build_s, 1),
        explanation=getattr(prop, 'explanation', ''),
    )
    ev = dict(property_id=pid, tier=tier, seed=seed, level=prop.level, coverage=cov,
              assumptions=list(prop.assumptions), wall_s=round(wall, 2), violations=n_viol)
    EVIDENCE.mkdir(parents=True, exist_ok=True)
    (EVIDENCE / f'{pid}.json').write_text(json.dumps(ev, indent=1, default=str, sort_keys=True))

    for line in known_lines:
        print(line)
    for line in out_lines:
        print(line)
    print(f'{pid} {tier}: theorems {cov["discharged"]}/{cov["obligations"]} checked, '
          f'{evaluations} correspondence cases ({dn} distinct non-trivial), '
          f'{len(unexplained)} disagreements, {n_viol} violations, {wall:.1f}s')
    return 1 if n_viol else 0


def do_replay(prop, path):
    payload = json.loads(Path(path).read_text())
    print(json.dumps({k: payload[k] for k in payload if k not in ('case',)}, indent=1, default=str)[:3000])
    sname = payload.get('suite')
    suite = next((s for s in prop.suites if s.name == sname), None)
    if suite is None or 'case' not in payload:
        print('replay: nothing executable in this file (it names the broken theorem/correspondence):',
              payload.get('broken'))
        return 1
    suite.setup()
    try:
        o = safe_impl(suite, payload['case'])
    finally:
        suite.teardown()
    msg = suite.oracle(payload['case'], o)
    print('case      :', json.dumps(payload['case'], default=str)[:2000])
    print('observed  :', json.dumps(o, default=str)[:2000])
    if suite.model:
        try:
            i, _ = suite.encode(payload['case'], o)
            print('model     :', coqrun.eval_model(suite, i)[-2000:])
        except Exception as e:
            print('model     : (the observation cannot be encoded for the model:', type(e).__name__, e, ')')
    else:
        print('model     : (runtime suite: the oracle decides)')
    print('oracle    :', msg)
    return 1 if msg else 0
