"""Regenerate /verif/MANIFEST.json from the table below:  python3 harness/tcv/manifest.py"""
import json
from pathlib import Path

VERIF = Path(__file__).resolve().parents[2]

CLAIMED = {
    'C01': dict(
        category='proof',
        text='Theorem (by induction on the evaluation fuel and over the inputs): under the invariant "memory and store '
             'hold only denotations", Task.value returns the reference denotation of the task - run applied to its '
             'persisted parameters and to the denotations of its inputs - whether computed, held in memory or loaded from '
             'storage written by anyone, and re-establishes the invariant; every operation of a process lifetime (requests '
             'in any order, forcing with deletion/recomputation, inspection, failing runs) preserves it; restarts keep the '
             'store half; builds do not touch the store. Tied to the code by differential histories over one data directory '
             'with forked processes (every value, the run log and the directory listing after every step); the oracle is an '
             'independent reference evaluator of the configuration.',
        note='the theorems take "objects with one location denote one value" (supplied by C03 under no-collision of SHA-256) '
             'and well-founded inputs (C08) as explicit hypotheses; run-argument binding by name and non-JSON data classes are '
             'not yet in the history model; parameter mode only',
        technique='Coq proof (invariant over a fuelled evaluator, mutual inductive denotation) + differential histories via vm_compute',
        ref='DESIGN.md section 5, C01'),
    'C18': dict(
        category='proof',
        text='Theorems about the evaluation machine: a successful run (first computation, retry after failure, forced '
             'recomputation) leaves beside the result exactly the record of this run - task, the value repr of every '
             'parameter including unpersisted ones, the key of every input task, config name, namespace, context name, the '
             'records added during run in order - and a log with the messages of this run only, replacing whatever was there; '
             'a failing run leaves an empty log, no new record and nothing in memory; result, record and log are three '
             'distinct files; a request changes no file other than those of the task objects of the process (no cross-talk). '
             'Tied to Task._init_run_info/_finish_run_info/Data.get_log_handler by differential histories with failing runs, '
             'retries and forced recomputations within one process, reading run_info and log after each step.',
        note='timestamps, user, version, class/module names and the framing log lines are abstracted; the model is the '
             'repaired code (fix e89a171: handler detached when run fails); the raw-log check for duplicated lines and NUL '
             'padding is done by the oracle',
        technique='Coq proof (case analysis of the fuelled evaluator, path distinctness, store-preservation invariant) + '
                  'differential histories via vm_compute',
        ref='DESIGN.md section 5, C18'),
    'C19': dict(
        category='proof',
        text='Theorems about the TestChain / create_test_task model: if class and parameter values agree and every upstream '
             'value handed to or computed inside the helper is the denotation of the real upstream, the task yields in the '
             'helper exactly the denotation it has in the real chain (same `run`, same argument construction as C01); a '
             'mocked task returns the supplied value and run is never applied to it; a missing/ill-typed parameter and a '
             'missing input task make the constructor fail. Tied to utils/testing.py by differential runs: random class '
             'families (inputs by class or name, defaults, optional inputs), a real chain computes every value, those values '
             'become the mocks of create_test_task / TestChain (keyed by class or by name), results, construction errors, '
             'files and the run log are compared.',
        note='helpers persist under the config name `test` (name mode): a fresh base_dir per helper is assumed; run-argument '
             'binding by name is the same code path as in real chains and is not separately modelled',
        technique='Coq proof (relational agreement of inputs, congruence of run) + differential correspondence via vm_compute',
        ref='DESIGN.md section 5, C19'),
    'C20': dict(
        category='proof',
        text='Theorems about the copy loop over the paired name-mode / parameter-mode tasks: every result that exists in '
             'name mode has a result at its key location afterwards, with identical content when the location was free; a '
             'task without a result gets nothing; every source entry exists afterwards unchanged and whatever is new in the '
             'source is a directory; dry=True writes no result files; nothing in the target is ever changed or removed and an '
             'occupied key location is skipped. The pairing (name-mode chain with sharing by (task, config file), '
             'parameter-mode chain, lookup by full name) is part of the model and tied to the code by differential runs: '
             'file-based pipelines, random subsets computed in name mode, dry/real/repeated migrations, SHA-256 of both '
             'trees after each, then has_data/values/run log of the new chain.',
        note='known finding K3 (open): has_data creates empty task directories in the SOURCE tree, so "never modified" holds '
             'for existing entries only (refuted example in the file); loop-level idempotence is proved per step and checked '
             'as a whole by the correspondence; directory-type data are not in the correspondence yet',
        technique='Coq proof (fold invariants over two stores) + differential correspondence via vm_compute',
        ref='DESIGN.md section 5, C20'),
    'C02': dict(
        category='proof',
        text='Theorems that the key text (hence the location, C12) is invariant under: permuting parameter declarations, '
             'adding parameters excluded from persistence (ignored, default-valued), permuting mapping keys at any depth '
             '(sort + idempotence of the sort), permuting inputs, mounting under any namespace (prefix stripped, order '
             'preserved under a common prefix), config-vs-context origin of a value, and the values substituted for '
             'placeholders. Tied to the code by differential runs of the whole chain model on (configuration, '
             'computation-preserving rewriting) pairs: renamed files, permutations, extra unpersisted parameters, changed '
             'global_vars, mounting under a namespace, mapping keys inside object arguments; oracle: corresponding tasks keep '
             'their path; registry-level pairs for AutoParameterObject arguments; fresh interpreters under different hash seeds.',
        note='partial: the interpreter hash seed is outside the model - it is exercised by building the same configuration in '
             'fresh interpreters under different PYTHONHASHSEED values (runtime suite). Three open known findings, each with a '
             'Coq witness or a replayed runtime witness: the keyword order of instantiated objects (K2a) and the insertion '
             'order of mapping-valued AutoParameterObject arguments (K2a2) enter the key; a parameter object holding a set of '
             'strings makes the key depend on the hash seed (K2b). Not repaired: any canonicalisation moves stored results (C12).',
        technique='Coq proof (sorted-permutation uniqueness, sort/map commutation) + differential correspondence via vm_compute',
        ref='DESIGN.md section 5, C02'),
    'C03': dict(
        category='proof',
        text='The full statement is refuted in Coq by a witness replayed on the implementation on every run (K1: strings '
             'are quoted without escaping, so two unequal lists of strings share one text - kept as an open known finding). '
             'Proved on the fragment where it holds (a computable predicate: identifier parameter names, JSON-like values '
             'of any depth whose strings and mapping keys contain no quote, no Path parameters): the value text is uniquely '
             'readable (equal texts -> values equal up to mapping-key order), the parameter text determines the persisted '
             '(name, value) list, the key text determines that list and the (input name, input key) pairs, and - the hash '
             'chain - in two chains on whose key texts the hash does not collide, tasks with one key have one computation '
             'signature (persisted parameter values and, recursively under each input name, the signature of the input), '
             'so a change of any persisted value at any distance upstream changes the key; different keys of one task class '
             'are different locations; the keys meant are the keys construction assigns (KeyOf, C13) and SHA-256 hex output '
             'satisfies the character hypothesis. Correspondence: pairs of registry assignments built by separator-, quoting- '
             'and nesting-aware mutations (text equality, persisted-list equality and fragment membership, model vs '
             'implementation), pairs of whole pipelines with one configured value edited (every task whose reference '
             'descriptor changes must move; two computations of one task in one chain must not share a key), and whole-chain '
             'keys against the model and the frozen scheme.',
        note='partial: strings with quote characters (refuted, K1), Path parameters and parameter objects are outside the '
             'proved fragment - there only the differential oracle applies; collision-freedom of the truncated SHA-256 on '
             'the texts of the chains compared is a hypothesis.',
        technique='Coq proof (unique readability by structural induction with follow sets, injectivity of the joined texts, '
                  'mutual induction over the key derivation of the DAG) + differential pairs via vm_compute + pipeline-pair oracle',
        ref='DESIGN.md section 5, C03'),
    'C04': dict(
        category='proof',
        text='Theorems about the evaluation machine: a result held by the task object is served with no change at all; a '
             'stored, unforced result is loaded with the run log, every other task object and every existing file unchanged '
             '(only the task directory is created); a successful request leaves the value in memory so the run executes at '
             'most once per task object; the run log is only appended; builds, has_data, flags, forcing without recompute, '
             'restarts run nothing; and over a whole history (requests on arbitrary objects in any order, restarts in between, '
             'any initial content of the data directory, nothing forced, no failure) the run of a persisted task executes at '
             'most once per storage location and a computed location is stored - by an invariant with the set of runs in '
             'progress and a level function along inputs. Correspondence: force-free histories with restarts and mixed '
             'histories (run arguments included); oracle: no location runs twice, a stored result runs nothing, runs of a '
             'request are upstream of it, inspection runs nothing; every persisting data class incl. empty results at most once.',
        note='the history theorem is for a fixed table of task objects (all chains built before the requests) and for JSON-like '
             'one-shot results; its hypotheses (inputs strictly lower, one location one data class, log/record files are no '
             'result files) are stated, shown satisfiable by an Example, and not derived from construction',
        technique='Coq proof (case analysis of the fuelled evaluator, fold invariants) + differential histories via vm_compute',
        ref='DESIGN.md section 5, C04'),
    'C07': dict(
        category='proof',
        text='Theorems: Task.force empties and marks exactly one object; delete_data removes nothing but that object\'s own '
             'result; Chain.force marks exactly the closure, which is the named tasks plus everything reachable along '
             'input->dependant arcs (closure proved sound and complete), all other objects keep their state; a forced object '
             'runs again although a result is stored, its value then stays in memory and later requests are memory hits; '
             'unforced objects are served from storage; reset_data (an operation of the history model) drops the value in '
             'memory and keeps the forced mark. Correspondence: histories rich in force/force_chain with all flag '
             'combinations plus is_forced/has_data inspection; oracle recomputes closures from observed edges and counts runs.',
        note='recompute iterates a Python set: order is arbitrary, compared as a multiset per operation',
        technique='Coq proof (reachability closure, fold over forced objects) + differential histories via vm_compute',
        ref='DESIGN.md section 5, C07'),
    'C05': dict(
        category='proof',
        text='Proof over the publication protocol of every data class (files: write aside, one rename; directories: fill a '
             'work directory, rename an existing result aside, rename the work directory in, delete the aside copy; '
             'ContinuesData keeps an earlier work directory): at every prefix of the operation sequence - a crash or a '
             'fault inside save - and whatever earlier attempts left under the work/aside names, the final name holds '
             'nothing, the complete new result or the complete previous one; an uninterrupted save publishes the new '
             'result; a later chain that sees nothing recomputes and publishes. The operation sequences are compared with '
             'the file-system events the code issues for 8 data classes x first/forced x leftovers; in addition a snapshot '
             'of the data directory before every file-system event, and torn prefixes of every file being written, are '
             'each opened by a fresh process: has_data implies no recomputation, the value is one a complete run produced, '
             'a second request agrees; run raising / returning a mistyped value / an unserializable value leave nothing visible.',
        note='partial: atomicity of rename and the partial state of an open file are the model of the operating system '
             '(Crash.apply), not verified; power-loss durability (fsync) is outside the model; H5Data is covered through '
             'ContinuesData, FigureData through the file discipline only. Found and repaired F6 (results written in place).',
        technique='Coq proof (case analysis over every prefix of every trace, all leftover states) + trace correspondence via '
                  'vm_compute + fault/crash-point enumeration on the implementation',
        ref='DESIGN.md section 5, C05'),
    'C06': dict(
        category='other',
        text='Proof of the logic taskchain itself adds around the third-party serializers - json-lines framing reads every '
             'list of items back item by item in order (items = newline-free text without leading/trailing whitespace, as '
             'orjson produces); Data.value refuses exactly None and returns every other value, the falsy ones included; '
             'lists of arrays are read back in numeric order whatever the directory order; loading changes no stored file - '
             'plus translation validation of the serializers: for JSON values (nesting, unicode incl. astral and NUL, '
             'boundary ints and floats, empty containers), numpy arrays (16 dtypes, 0-d to 3-d, empty, non-contiguous), '
             'DataFrames/Series, generated sequences, lists of >10 arrays and directories, a chain computes the value in one '
             'process and a later chain loads it in a fresh process; type-/dtype-/shape-/order-sensitive comparison and '
             'file hashes before/after the load.',
        note='orjson, numpy, pandas/pickle are exercised, not verified; dict key order is not compared (dict equality); '
             'integer dict keys and values outside the 64-bit range are outside the stated domain',
        technique='Coq proof of the framing/guard logic + differential round trips across processes (translation validation)',
        ref='DESIGN.md section 5, C06'),
    'C08': dict(
        category='proof',
        text='Theorems about the chain-construction model: a config contributes exactly its listed, non-abstract, '
             'non-excluded classes under its namespace; by-name and by-class inputs are resolved among the tasks of the '
             'declaring namespace (C10 resolution with the namespace-prefixed name), optional absent inputs bind the default, '
             'required absent ones fail construction; required_tasks / dependent_tasks / is_task_dependent_on are exactly '
             'the transitive closures (fuelled closure proved sound and complete against an inductive Path); any set of '
             'tasks each having an input in the set (every cycle) makes construction fail for every fuel. Tied to '
             'Chain._prepare by differential runs on random class sets, mount trees (repeated mounting, prefix-overlapping '
             'names, patterns, cyclic and dangling declarations) with graph queries; oracle: component-wise reference resolver.',
        note='import_by_string not modelled (harness resolves import strings); patterns restricted to literals and prefix.*; '
             'networkx trusted and tied by correspondence; cycles surface as RecursionError in the code vs ECycle in the model '
             '(both: construction fails)',
        technique='Coq proof (fold invariants, reachability closure soundness/completeness, non-well-founded set argument) + '
                  'differential correspondence via vm_compute',
        ref='DESIGN.md section 5, C08'),
    'C09': dict(
        category='proof',
        text='Theorems about the config/context model: dict.update is later-wins; a config mounted as ns reads the '
             'context entry for exactly ns, else the global context entry, else its own value (entries of every other '
             'namespace are irrelevant); effective parameter value with default, missing-required and dtype errors; '
             'later contexts win in merges; uses-as composes namespaces and propagates the same context; a task is '
             'registered with the parameters of its declaring config only, other tasks are untouched, and a second '
             'config declaring the same full name is a conflict error. Tied to Config/Context/Chain by differential runs '
             'of whole config trees (files, parts, namespaces, contexts as dict/file/list); the oracle recomputes effective '
             'values by the declared precedence. Heap aliasing is checked by the harness only.',
        note='partial: "share no mutable values" is a heap property outside the functional model (harness-only suite); '
             'well-formed contexts (unique keys/namespaces) assumed by the precedence theorems',
        technique='Coq proof (association-list update algebra, fold invariants) + differential correspondence via vm_compute',
        ref='DESIGN.md section 5, C09'),
    'C10': dict(
        category='proof',
        text='Theorems over all name lists and queries (arbitrary text, no well-formedness needed): resolution is '
             'invariant under permutation of the declared tasks; a resolved name is a declared match that is the '
             'less nested form (namespace and group components are suffixes) of every other match, and conversely; '
             'not-found iff no match; at most one match can have priority. For well-formed names (components are '
             'non-empty texts without a colon) the code\'s own splits are proved to recover the components, matching is '
             'characterised on components, and every task resolves by its full name and matches its three shorter forms; '
             'an ambiguous name among a dependant\'s inputs is an error for optional inputs too. Model tied to _find_task_full_name, '
             'Chain.__getitem__/__contains__ and InputTasks by differential runs on colliding prefix/suffix name sets.',
        note='model of _find_task_full_name hand-written (textual, mirrors the splits of the code); UTF-8 argument '
             'for byte-wise splitting; the full-name-always-resolves corollary is exercised by the oracle, not yet a theorem',
        technique='Coq proof (Permutation invariance, antisymmetry of less-nested via split/join inverses) + '
                  'differential correspondence via vm_compute',
        ref='DESIGN.md section 5, C10'),
    'C11': dict(
        category='proof',
        text='The scanner model of the regex substitution is proved to meet an independent inductive description of '
             'placeholder occurrences (which is proved functional), for all strings and all global_vars; undefined '
             'placeholders and brace-free text are untouched; the traversal substitutes every string leaf at any depth '
             'of lists and dict values and nothing else; applying it again with any global_vars is the identity; the '
             'persistence repr of a substituted leaf is the source text. Copy semantics, str behaviour and Config-level '
             'application (context values, uses paths) are tied by the correspondence and checked by the oracle.',
        note="Python's re for r'{(.*?)}' is modelled by a hand-written scanner (trusted via correspondence on "
             'brace/newline-heavy strings); ReprStr copy/str behaviour is a heap/runtime matter checked by the harness oracle',
        technique='Coq proof (strong induction against an inductive spec relation; nested induction on values) + '
                  'differential correspondence via vm_compute',
        ref='DESIGN.md section 5, C11'),
    'C12': dict(
        category='proof',
        text='The 1.4.0 scheme stated as theorems about the model (key = 32 hex digits of H(params$$$inputs), registry '
             'and inputs text, directory layout, extensions, side files); FIPS vectors for the Gallina SHA-256; 7 golden '
             'pipelines whose full relative paths, produced by the pinned implementation, are recomputed by the kernel '
             'from the model (vm_compute). The naming rule of tasks (snake case of the class name without a trailing '
             '_task, explicit Meta.name verbatim, module / package groups) is a Gallina function with its own theorems, '
             'compared with MetaTask on classes created with type(). Every run compares registry texts, whole-chain keys/locations (three-way with '
             'a frozen independent re-implementation) and SHA-256 vs hashlib on random inputs.',
        note='essentially translation validation of the scheme: goldens and the frozen oracle were produced at the '
             'pinned commit; name mode (key = config name) is covered with C20',
        technique='Coq kernel-checked golden equations (vm_compute, Gallina SHA-256) + three-way differential check',
        ref='DESIGN.md section 5, C12'),
    'C13': dict(
        category='proof',
        text='Theorems: MultiChain construction is the fold of Chain construction over one object set and one registry; '
             'every task gets in a member chain exactly the key the standalone chain gives it (the hash-chain key is proved '
             'functional and independent of what the registry already holds, by induction over the fuelled re-creation); '
             'registration returns the same object for two tasks iff class slug and key coincide (no over-sharing, no '
             'duplication) and keeps the registry well formed; a value computed through one member is a memory hit through '
             'any other; MultiChain.force fans out member by member. Tied to MultiChain/Chain._create_task by differential '
             'histories with MultiChains of 2-3 overlapping configs next to standalone chains on one data directory.',
        note='"same key iff same computation" is C02/C03; dict order of MultiChain.chains follows the config list',
        technique='Coq proof (registry invariant, mutual inductive key relation with functional determinism) + differential '
                  'histories via vm_compute',
        ref='DESIGN.md section 5, C13'),
    'C14': dict(
        category='proof',
        text='Theorems about the file-cache model (files as their loader sees them: an intact entry recording its key, or '
             'something that does not load): an intact entry for exactly this key is returned with zero computer calls; a '
             'missing or damaged file makes the computer run exactly once, its result stored and returned; force always '
             'recomputes and replaces; a raising computer stores nothing; get never computes and never returns a damaged '
             'file; an entry recorded for another key is reported; every other file is untouched; distinct keys (no-collision '
             'hypothesis on the two keys) and a cache vs any of its sub-caches (whatever the name), and two sub-caches with different names (single or '
             'multi-component), use distinct files. Tied to '
             'JsonCache by differential operation sequences with sub-caches, unicode keys, falsy/None values, failing '
             'computers and files truncated at arbitrary byte lengths, emptied, corrupted, re-shaped or planted for another key.',
        note='orjson and "no proper prefix of an entry parses" trusted (exercised by truncation); hash shape (64 hex chars) and '
             'no-collision are explicit hypotheses; NumpyArrayCache/DataFrameCache share FileCache logic without key check '
             '(ca_checks_key=false in the model) but are not yet driven by the correspondence',
        note2='the same histories are run on a NumpyArrayCache against the model instantiated without key recording (ca_checks_key = false); DataFrameCache and further array kinds by a runtime round-trip suite',
        technique='Coq proof (case analysis of the cache step, path injectivity by length/slash counting) + differential '
                  'correspondence via vm_compute',
        ref='DESIGN.md section 5, C14'),
    'C15': dict(
        category='proof',
        text='One inductive invariant over the interleaving relation of any number of get / get_or_compute callers (forced '
             'or not) at the granularity acquire, exists, release, load, compute, truncate, write, rename, release - unbounded '
             'callers and steps: every returned value was produced by a complete computation; the cache file is never seen '
             'truncated; no reachable deadlock (some caller can always step until all returned); at quiescence the entry is '
             'complete; a caller whose existence check finds the entry returns a stored value without computing and get never '
             'answers NO_VALUE then, whatever forced writers do in between. Tied to FileCache/JsonCache by a cooperative '
             'scheduler that parks real threads at those points and executes random and scripted schedules of 2-4 callers.',
        note='partial: filelock is replaced by a cooperative lock (mutual exclusion of FileLock trusted), processes/flock and '
             'chunked reads are not modelled, load is atomic as in the property text; the unguarded no-recompute theorem holds '
             'for the repaired code (fix 7f52b40); before it the window schedule was a counterexample',
        technique='Coq proof (inductive invariant over a small-step interleaving semantics) + schedule-controlled differential runs',
        ref='DESIGN.md section 5, C15'),
    'C16': dict(
        category='proof',
        text='Theorems for every signature, positional prefix and keyword order: the decorator\'s normalisation binds '
             'each parameter exactly as Python does (positional, else keyword, else default) and nothing else; two '
             'bindings get the same key iff they agree as mappings on all non-ignored parameters (up to dict key order); '
             'ignored arguments never matter; (method, version) sub-cache names are injective; per-call laws for '
             'only_cache / force_cache / store_cache_value over a dictionary cache (executes exactly when absent or forced, '
             'touches only its own entry). Tied to cached.__call__ by differential histories with recorded cache keys; '
             'the oracle uses inspect.signature.bind as the reference binding.',
        note='json.dumps(sort_keys=True) trusted to be injective on JSON-distinguishable values; valid calls only; '
             'file-backed caches are C14',
        technique='Coq proof (association-list maps, sorted-permutation uniqueness) + differential correspondence via vm_compute',
        ref='DESIGN.md section 5, C16'),
    'C17': dict(
        category='proof',
        text='Theorems over all lists, chunk sizes, thread counts and all per-chunk completion orders (Permutation '
             'hypotheses): chunked laws, sorted collection equals map f, sort=False chunk-wise permutation, '
             'once-per-element, exception propagation; tied to the code by differential runs under a controller '
             'that dictates worker completion order.',
        note='partial: thread pool, asyncio and GIL are abstracted to "any completion order per chunk"; model '
             'hand-written, tied by correspondence',
        technique='Coq proof (induction, Permutation/StronglySorted uniqueness) + differential correspondence via vm_compute',
        ref='DESIGN.md section 5, C17'),
}

PENDING = 'not yet claimed: model/theorems under construction (DESIGN.md section 8 build order); no check registered'


def suites_note(pid):
    p = Path(__file__).with_name('suites_doc.json')
    if not p.exists():
        return ''
    rows = json.loads(p.read_text()).get(pid, [])
    return ' Suites run by the check: ' + '; '.join(
        f"{r['name']} ({'model evaluated on every case' if r['tied_to_model'] else 'runtime oracle only'})" for r in rows) + '.'


def main():
    ids = [json.loads(l)['id'] for l in (VERIF / 'properties.jsonl').read_text().splitlines() if l.strip()]
    checks, na = [], []
    for pid in ids:
        c = CLAIMED.get(pid)
        if not c:
            na.append(dict(property_id=pid, reason=PENDING))
            continue
        checks.append(dict(
            property_id=pid,
            quick_cmd=f'./check {pid} --tier quick',
            thorough_cmd=f'./check {pid} --tier thorough',
            evidence_file=f'evidence/{pid}.json',
            replay_cmd_template=f'./check {pid} --replay {{path}}',
            engine='coq-model',
            level_claimed=dict(category=c['category'], text=c['text'], design_ref=c['ref']),
            level_note=c['note'] + ((' ' + c['note2']) if 'note2' in c else '') + suites_note(pid),
            technique=c['technique'],
        ))
    claimed = sorted(CLAIMED)
    m = dict(
        version=1,
        setup_cmd="cd /verif/coq && coq_makefile -f _CoqProject $(find theories -name '*.v' | sort) -o Makefile "
                  "> /dev/null && timeout 3000 make -j16",
        hooks=dict(
            guard='TASKCHAIN_VERIF',
            enable='no source hooks: the checks import /repo/src through PYTHONPATH and observe public API only; '
                   'TASKCHAIN_VERIF=1 is set by ./check for completeness',
            baseline_off_cmd='cd /repo && /venv/bin/python -m pytest -ra -q -p no:cacheprovider --timeout=900 '
                             '--continue-on-collection-errors',
            source_commits=[],
            add_only=True,
        ),
        engines=[
            dict(name='coq-model', path='coq/', serves_properties=claimed,
                 kind_free_text='Coq 8.16 development: executable Gallina model (theories/Model), lemmas '
                                '(theories/Proofs), property theorems with Print Assumptions (theories/Properties)'),
            dict(name='correspondence', path='harness/', serves_properties=claimed,
                 kind_free_text='differential check run by every command: model evaluated by vm_compute inside coqc '
                                'vs /repo working tree on seeded structured cases; model-independent oracle used '
                                'for the failing-input search'),
        ],
        checks=checks,
        not_applicable=na,
        notes='known findings and fixed defects: known_findings.json; design and trusted base: DESIGN.md',
    )
    (VERIF / 'MANIFEST.json').write_text(json.dumps(m, indent=1))


if __name__ == '__main__':
    main()
